"""Deterministic simulation machinery for inducer/pymbolic (see /verif/DESIGN.md)."""
