"""Batch driver, hash-seed-slot templates, forked-run isolation, ddmin, replay,
evidence.  See DESIGN.md section 2.

Layout of a batch:

  driver (./check)                      reads VERIF_SEED, starts H=16 templates
    template s  (PYTHONHASHSEED fixed)  imports pymbolic once, never touches it
      forked child per run              executes one closed scenario, reports, exits

Run i is always executed by template i mod H, so a run's behaviour is a function
of (run seed, hash seed, tree) only and does not depend on -j.
"""
from __future__ import annotations

import importlib
import json
import os
import select
import signal
import subprocess
import sys
import time
import traceback

from . import util

VERIF_DIR = os.path.dirname(os.path.dirname(os.path.abspath(__file__)))
PY = sys.executable
RUN_WALL_CAP_S = 60.0

PROPS = {"C01": "dst.c01", "C05": "dst.c05", "C12": "dst.c12", "C14": "dst.c14",
         "C17": "dst.c17"}


def load_prop(pid):
    return importlib.import_module(PROPS[pid])


# {{{ known findings

def load_known_findings():
    """-> {property: {sig: text}} of *open* findings.  'fixed:' lines suppress nothing."""
    res = {}
    path = os.path.join(VERIF_DIR, "KNOWN_FINDINGS.txt")
    try:
        with open(path) as f:
            for line in f:
                line = line.strip()
                if not line.startswith("finding:"):
                    continue
                toks = line[len("finding:"):].split(None, 2)
                kv = dict(t.split("=", 1) for t in toks[:2] if "=" in t)
                if "property" in kv and "sig" in kv:
                    res.setdefault(kv["property"], {})[kv["sig"]] = (
                        toks[2] if len(toks) > 2 else "")
    except FileNotFoundError:
        pass
    return res

# }}}


# {{{ forked execution of one scenario

class HarnessError(Exception):
    pass


def _child_main(P, scenario, wfd, open_sigs):
    try:
        util.setup_child_process()
        res = P.execute(scenario, open_sigs)
        out = json.dumps(res)
    except BaseException:  # noqa: BLE001
        out = json.dumps({"harness_error": traceback.format_exc()})
    data = out.encode("utf8")
    view = memoryview(data)
    while view:
        n = os.write(wfd, view)
        view = view[n:]
    os.close(wfd)
    os._exit(0)


def run_forked(P, scenario, open_sigs, cap_s=RUN_WALL_CAP_S):
    """Execute scenario in a freshly forked child; return its result dict."""
    rfd, wfd = os.pipe()
    sys.stdout.flush()
    pid = os.fork()
    if pid == 0:
        os.close(rfd)
        signal.alarm(int(cap_s) + 30)
        _child_main(P, scenario, wfd, open_sigs)
    os.close(wfd)
    chunks = []
    deadline = time.monotonic() + cap_s
    timed_out = False
    while True:
        left = deadline - time.monotonic()
        if left <= 0:
            timed_out = True
            break
        r, _, _ = select.select([rfd], [], [], left)
        if not r:
            timed_out = True
            break
        b = os.read(rfd, 1 << 16)
        if not b:
            break
        chunks.append(b)
    os.close(rfd)
    if timed_out:
        try:
            os.kill(pid, signal.SIGKILL)
        except ProcessLookupError:
            pass
        os.waitpid(pid, 0)
        return {"harness_error": f"run exceeded wall cap of {cap_s}s (killed)"}
    _, status = os.waitpid(pid, 0)
    raw = b"".join(chunks)
    if not raw:
        return {"harness_error": f"child died without a report (status {status})"}
    try:
        return json.loads(raw)
    except ValueError:
        return {"harness_error": "unparsable child report"}


def run_full(P, scenario, open_sigs):
    """execute + the property's batch post-step (C14's compiler) on this one run."""
    res = run_forked(P, scenario, open_sigs)
    if "harness_error" in res:
        return res
    if res.get("violation") is None and res.get("post") is not None and hasattr(P, "post_batch"):
        try:
            vs = P.post_batch([res["post"]], open_sigs)
        except HarnessError as e:
            return {"harness_error": str(e)}
        pr = vs[0]
        _merge_post(res, pr)
    return res


def _merge_post(res, pr):
    if pr is None:
        return
    if pr.get("violation") is not None and res.get("violation") is None:
        res["violation"] = pr["violation"]
    for k in pr.get("known", []):
        res.setdefault("known", []).append(k)
    for k, v in pr.get("probes", {}).items():
        res.setdefault("probes", {})[k] = res.setdefault("probes", {}).get(k, 0) + v

# }}}


# {{{ minimisation

def _vclass(res):
    v = res.get("violation")
    return None if v is None else v.get("cls")


def shrink(P, scenario, vclass, open_sigs, budget_s=40.0, max_attempts=400):
    """ddmin over the op list, then property-specific simplifications, accepting a
    candidate only while the same violation class persists."""
    t_end = time.monotonic() + budget_s
    attempts = 0

    def still_fails(cand):
        nonlocal attempts
        if time.monotonic() > t_end or attempts >= max_attempts:
            return False
        attempts += 1
        r = run_full(P, cand, open_sigs)
        return _vclass(r) == vclass

    def with_ops(s, ops):
        c = dict(s)
        c["ops"] = ops
        return c

    cur = scenario
    ops = list(cur["ops"])
    n = 2
    while len(ops) >= 2 and time.monotonic() < t_end and attempts < max_attempts:
        chunk = max(1, len(ops) // n)
        reduced = False
        for start in range(0, len(ops), chunk):
            cand_ops = ops[:start] + ops[start + chunk:]
            if not cand_ops:
                continue
            if still_fails(with_ops(cur, cand_ops)):
                ops = cand_ops
                n = max(n - 1, 2)
                reduced = True
                break
        if not reduced:
            if chunk == 1:
                break
            n = min(len(ops), n * 2)
    cur = with_ops(cur, ops)

    if hasattr(P, "simplifications"):
        progress = True
        while progress and time.monotonic() < t_end and attempts < max_attempts:
            progress = False
            for cand in P.simplifications(cur):
                if still_fails(cand):
                    cur = cand
                    progress = True
                    break
    return cur, attempts

# }}}


# {{{ template (one per hash-seed slot)

def template_main():
    job = json.loads(sys.stdin.readline())
    util.repo_path_setup()
    pid = job["prop"]
    P = load_prop(pid)
    import pymbolic  # noqa: F401  (loaded once; children inherit it)
    if hasattr(P, "template_init"):
        P.template_init(job)
    open_sigs = job["open_sigs"]
    slot, H = job["slot"], job["H"]
    base = job["base_seed"]
    tier = job["tier"]
    max_index = job["max_index"]
    t_end = time.monotonic() + job["budget_s"]
    hash_seed = int(os.environ.get("PYTHONHASHSEED", "0"))

    agg = {
        "slot": slot, "hash_seed": hash_seed, "runs": 0, "steps": 0,
        "nontrivial_digests": [], "probes": {}, "faults": {}, "known": {},
        "violations": [], "harness_errors": [], "samples": [], "digests": {},
        "post_programs": 0, "classes": {}, "states": [],
    }
    keep_digests = job.get("keep_digests", False)
    pending = []   # (index, scenario, result) awaiting post_batch
    post_every = job.get("post_every", 150)

    def absorb(i, scenario, res):
        agg["runs"] += 1
        agg["steps"] += res.get("steps", 0)
        for k, v in res.get("probes", {}).items():
            agg["probes"][k] = agg["probes"].get(k, 0) + v
        for k, v in res.get("faults", {}).items():
            agg["faults"][k] = agg["faults"].get(k, 0) + v
        for kf in res.get("known", []):
            e = agg["known"].setdefault(kf["sig"], {"count": 0, "what": kf["what"]})
            e["count"] += 1
        d = util.digest_of(res.get("events", []))
        if keep_digests:
            agg["digests"][str(i)] = d
        if res.get("nontrivial"):
            agg["nontrivial_digests"].append(d[:16])
        for s in res.get("states", []):
            agg["states"].append(s)
        if len(agg["samples"]) < 1 and res.get("nontrivial"):
            agg["samples"].append({"run_index": i, "scenario": scenario})
        if res.get("violation") is not None:
            handle_violation(i, scenario, res, d)

    def handle_violation(i, scenario, res, d):
        vclass = res["violation"]["cls"]
        if len(agg["violations"]) >= 3:
            agg["violations"].append({"run_index": i, "cls": vclass, "replay": None})
            return
        small, attempts = shrink(P, scenario, vclass, open_sigs)
        r2 = run_full(P, small, open_sigs)
        if _vclass(r2) != vclass:   # should not happen: shrink only accepts same class
            small, r2 = scenario, res
        d2 = util.digest_of(r2.get("events", []))
        rs = util.run_seed(pid + ":" + tier, base, i)
        path = os.path.join(os.environ.get("VERIF_REPLAY_DIR")
                            or os.path.join(VERIF_DIR, "replays"), f"{pid}-{rs:016x}.json")
        os.makedirs(os.path.dirname(path), exist_ok=True)
        with open(path, "w") as f:
            json.dump({
                "property": pid, "base_seed": base, "run_index": i, "run_seed": rs,
                "hash_seed": hash_seed, "pyflags": job.get("pyflags", []),
                "tier": tier, "scenario": small, "violation": r2["violation"],
                "digest": d2, "shrink_attempts": attempts,
                "original_ops": len(scenario["ops"]), "minimised_ops": len(small["ops"]),
            }, f, indent=1)
        # make sure the file replays in a fresh interpreter.  A violation that depends on
        # which freed address the allocator recycles (code keyed on id()) depends on the
        # heap history of the process; the replay child then tries a few deterministic
        # perturbations of its free lists and the one that reproduces is recorded.
        with open(path) as f:
            rp = json.load(f)
        stable = None
        for k in range(0, 16):
            out = replay_outcome(path, rp, heap_perturb=k)
            if _vclass(out) == vclass:
                stable = k
                rp["heap_perturb"] = k
                rp["digest"] = util.digest_of(out.get("events", []))
                break
        if stable is None and small is not scenario:
            # fall back to the unminimised scenario
            rp["scenario"] = scenario
            rp["minimised_ops"] = len(scenario["ops"])
            with open(path, "w") as f:
                json.dump(rp, f, indent=1)
            for k in range(0, 16):
                out = replay_outcome(path, rp, heap_perturb=k)
                if _vclass(out) == vclass:
                    stable = k
                    rp["heap_perturb"] = k
                    rp["digest"] = util.digest_of(out.get("events", []))
                    break
        rp["replay_validated"] = stable is not None
        if stable is None:
            rp["note"] = ("reproduced in the discovering process (and in every shrink attempt "
                          "there) but not in a fresh interpreter: the violation depends on the "
                          "allocator's address reuse")
        with open(path, "w") as f:
            json.dump(rp, f, indent=1)
        agg["violations"].append({"run_index": i, "cls": vclass, "replay": path,
                                  "detail": r2["violation"].get("detail"),
                                  "replay_validated": stable is not None})

    def flush_pending():
        if not pending:
            return
        try:
            prs = P.post_batch([r["post"] for (_, _, r) in pending], open_sigs)
        except HarnessError as e:
            agg["harness_errors"].append({"run_index": pending[0][0], "error": str(e)})
            prs = [None] * len(pending)
        for (i, scenario, res), pr in zip(pending, prs):
            agg["post_programs"] += 1 if res.get("post") is not None else 0
            _merge_post(res, pr)
            absorb(i, scenario, res)
        pending.clear()

    i = slot
    while i < max_index and time.monotonic() < t_end:
        rs = util.run_seed(pid + ":" + tier, base, i)   # batches (tiers) explore different runs
        scenario = P.generate(rs, tier)
        res = run_forked(P, scenario, open_sigs)
        if "harness_error" in res:
            agg["harness_errors"].append({"run_index": i, "error": res["harness_error"]})
            agg["runs"] += 1
        elif res.get("post") is not None and hasattr(P, "post_batch") \
                and res.get("violation") is None:
            pending.append((i, scenario, res))
            if len(pending) >= post_every:
                flush_pending()
        else:
            absorb(i, scenario, res)
        i += H
        if len(agg["harness_errors"]) > 20:
            break
    flush_pending()
    agg["next_index"] = i
    sys.stdout.write(json.dumps(agg) + "\n")
    sys.stdout.flush()

# }}}


# {{{ driver

_NOASLR = None


def no_aslr_prefix():
    """Address-space randomisation is one more source of nondeterminism: it decides which
    freed address the allocator hands out next, and with it the behaviour of any code keyed
    on id().  Templates, replay children and C17 nodes are started with it switched off."""
    global _NOASLR
    if _NOASLR is None:
        import platform
        import shutil
        _NOASLR = []
        exe = shutil.which("setarch")
        if exe:
            cmd = [exe, platform.machine(), "-R"]
            try:
                if subprocess.run(cmd + ["true"], capture_output=True, timeout=20).returncode == 0:
                    _NOASLR = cmd
            except Exception:  # noqa: BLE001
                pass
    return _NOASLR


def start_template(pid, slot, base, tier, budget_s, max_index, open_sigs, extra):
    env = dict(os.environ)
    env["PYTHONHASHSEED"] = str(util.slot_hash_seed(base, slot))
    env["PYTHONPATH"] = VERIF_DIR + os.pathsep + env.get("PYTHONPATH", "")
    env["PYTHONDONTWRITEBYTECODE"] = "1"
    pyflags = extra.get("pyflags", [])
    p = subprocess.Popen([*no_aslr_prefix(), PY, *pyflags, "-c",
                          "from dst.driver import template_main; template_main()"],
                         stdin=subprocess.PIPE, stdout=subprocess.PIPE, env=env,
                         cwd=VERIF_DIR)
    job = {"prop": pid, "slot": slot, "H": util.H_SLOTS, "base_seed": base, "tier": tier,
           "budget_s": budget_s, "max_index": max_index, "open_sigs": open_sigs}
    job.update(extra)
    p.stdin.write((json.dumps(job) + "\n").encode("utf8"))
    p.stdin.flush()
    p.stdin.close()
    p.stdin = None
    return p


def run_batch(pid, *, tier, budget_s, max_index, jobs=16, extra=None, base=None):
    """Run one batch; returns list of per-slot aggregates (or raises HarnessError)."""
    extra = dict(extra or {})
    base = util.base_seed() if base is None else base
    open_sigs = load_known_findings().get(pid, {})
    P = load_prop(pid)
    if hasattr(P, "driver_init"):
        extra.update(P.driver_init(base))
    try:
        return _run_batch(pid, tier, budget_s, max_index, jobs, extra, base, open_sigs)
    finally:
        if hasattr(P, "driver_fini"):
            P.driver_fini()


def _run_batch(pid, tier, budget_s, max_index, jobs, extra, base, open_sigs):
    slots = list(range(util.H_SLOTS))
    aggs = []
    # templates run `jobs` at a time; each has the whole budget (budget is per wave)
    waves = [slots[k:k + jobs] for k in range(0, len(slots), jobs)]
    per_wave = budget_s / len(waves)
    for wave in waves:
        procs = [(s, start_template(pid, s, base, tier, per_wave, max_index,
                                    open_sigs, extra)) for s in wave]
        for s, p in procs:
            try:
                out, _ = p.communicate(timeout=per_wave + 600)
            except subprocess.TimeoutExpired:
                p.kill()
                raise HarnessError(f"template {s} hung")
            if p.returncode != 0 or not out.strip():
                raise HarnessError(f"template {s} exited {p.returncode} without report")
            aggs.append(json.loads(out.decode("utf8").strip().splitlines()[-1]))
    return aggs


def merge_aggs(aggs):
    tot = {"runs": 0, "steps": 0, "probes": {}, "faults": {}, "known": {},
           "violations": [], "harness_errors": [], "samples": [], "digests": {},
           "nontrivial": set(), "hash_seeds": [], "post_programs": 0, "states": set()}
    for a in sorted(aggs, key=lambda a: a["slot"]):
        tot["runs"] += a["runs"]
        tot["steps"] += a["steps"]
        tot["post_programs"] += a.get("post_programs", 0)
        for k, v in a["probes"].items():
            tot["probes"][k] = tot["probes"].get(k, 0) + v
        for k, v in a["faults"].items():
            tot["faults"][k] = tot["faults"].get(k, 0) + v
        for k, v in a["known"].items():
            e = tot["known"].setdefault(k, {"count": 0, "what": v["what"]})
            e["count"] += v["count"]
        tot["violations"] += a["violations"]
        tot["harness_errors"] += a["harness_errors"]
        tot["samples"] += a["samples"]
        tot["digests"].update(a["digests"])
        tot["nontrivial"].update(a["nontrivial_digests"])
        tot["states"].update(a.get("states", []))
        tot["hash_seeds"].append(a["hash_seed"])
    return tot


def write_evidence(pid, P, tier, base, tot, wall_s, extra_cov=None):
    cov = {
        "evaluations": tot["runs"],
        "distinct_nontrivial": len(tot["nontrivial"]),
        "rule": P.RULE,
        "samples": tot["samples"][:3] or [{"note": "no non-trivial run in this batch"}],
        "runs_per_hour": int(tot["runs"] / wall_s * 3600) if wall_s > 0 else 0,
        "logical_steps": tot["steps"],
        "simulated_time": "none: nothing in the claimed surface reads a clock; "
                          "progress is counted in logical steps (ops, handler entries, "
                          "yield points)",
        "hash_seeds": tot["hash_seeds"],
        "fault_kinds_fired": tot["faults"],
        "reach_probes": tot["probes"],
        "distinct_states": len(tot["states"]),
        "state_measure": getattr(P, "STATE_MEASURE", ""),
        "known_findings_hit": {k: v["count"] for k, v in tot["known"].items()},
        "harness_errors": len(tot["harness_errors"]),
        "real_components": P.REAL,
        "stubbed_components": P.STUBS,
    }
    if tot.get("post_programs"):
        cov["compiled_programs"] = tot["post_programs"]
    if extra_cov:
        cov.update(extra_cov)
    zero = [k for k in getattr(P, "EXPECTED_PROBES", []) if not tot["probes"].get(k)]
    if zero:
        cov["zero_probes_warning"] = zero
    ev = {
        "property_id": pid, "tier": tier, "seed": base, "level": "exploration",
        "coverage": cov,
        "assumptions": P.ASSUMPTIONS,
        "wall_s": round(wall_s, 2),
        "violations": len(tot["violations"]),
    }
    os.makedirs(os.path.join(VERIF_DIR, "evidence"), exist_ok=True)
    with open(os.path.join(VERIF_DIR, "evidence", f"{pid}.json"), "w") as f:
        json.dump(ev, f, indent=1)
    return zero


TIER_BUDGET = {"quick": 40.0, "thorough": 900.0}


def main_check(argv):
    import argparse
    ap = argparse.ArgumentParser(prog="check")
    ap.add_argument("prop", choices=sorted(PROPS))
    ap.add_argument("--tier", default=os.environ.get("VERIF_TIER", "quick"),
                    choices=["quick", "thorough"])
    ap.add_argument("--replay")
    ap.add_argument("-j", type=int, default=16)
    ap.add_argument("--runs", type=int, default=None,
                    help="fixed number of runs (indices 0..N-1) instead of a time budget")
    ap.add_argument("--budget", type=float, default=None)
    ap.add_argument("--selftest", action="store_true",
                    help="determinism and hash-seed-independence self-test")
    ap.add_argument("--no-evidence", action="store_true")
    a = ap.parse_args(argv)
    util.repo_path_setup()
    pid = a.prop
    base = util.base_seed()
    print(f"VERIF_SEED={base} property={pid} tier={a.tier}", flush=True)

    if a.replay:
        return replay(pid, a.replay)
    if a.selftest:
        return selftest(pid, a)

    P = load_prop(pid)
    budget = a.budget if a.budget is not None else float(
        os.environ.get("VERIF_BUDGET_S", TIER_BUDGET[a.tier]))
    budget = getattr(P, "BUDGET_SCALE", {}).get(a.tier, 1.0) * budget
    max_index = a.runs if a.runs is not None else 10**12
    t0 = time.monotonic()
    aggs = []
    batches = getattr(P, "BATCHES", None) or [{"share": 1.0}]
    batch_info = []
    try:
        for b in batches:
            bt = a.tier + b.get("tier_suffix", "")
            got = run_batch(pid, tier=bt, budget_s=budget * b["share"],
                            max_index=max_index if a.runs is None else max(
                                16, int(a.runs * b["share"])),
                            jobs=a.j, base=base,
                            extra={"pyflags": b.get("pyflags", [])})
            aggs += got
            batch_info.append({"tier": bt, "pyflags": b.get("pyflags", []),
                               "runs": sum(g["runs"] for g in got)})
    except HarnessError as e:
        print(f"HARNESS-ERROR property={pid} {e}")
        return 2
    wall = time.monotonic() - t0
    tot = merge_aggs(aggs)
    zero = []
    if not a.no_evidence:
        extra_cov = {"batches": batch_info}
        if a.tier == "thorough":
            # determinism self-test rides along in the thorough tier
            a.runs = 96
            st = selftest(pid, a, quiet=True)
            extra_cov["determinism_selftest"] = (
                "96 run seeds x 3 batches (j=16, j=4, j=16): "
                + ("all digests equal" if st == 0 else "FAILED"))
            if st != 0:
                print(f"HARNESS-ERROR property={pid} determinism self-test failed")
                return 2
            wall = time.monotonic() - t0
        zero = write_evidence(pid, P, a.tier, base, tot, wall, extra_cov)
    print(f"runs={tot['runs']} steps={tot['steps']} wall={wall:.1f}s "
          f"distinct_nontrivial={len(tot['nontrivial'])} faults={tot['faults']}")
    print(f"probes={tot['probes']}")
    for z in zero:
        print(f"WARNING: reach probe '{z}' stayed at zero in this batch")
    for sig, v in sorted(tot["known"].items()):
        print(f"KNOWN-FINDING: property={pid} {sig}: {v['what']} (hit {v['count']}x)")
    for he in tot["harness_errors"][:5]:
        print(f"HARNESS-ERROR property={pid} run={he['run_index']}: "
              + he["error"].strip().splitlines()[-1])
    rc = 0
    seen = set()
    for v in tot["violations"]:
        if v.get("replay"):
            print(f"VIOLATION property={pid} replay={v['replay']}  class={v['cls']}"
                  + ("" if v.get("replay_validated", True) else
                     "  (replays only in the discovering process: depends on address reuse)"))
            rc = 1
        elif v["cls"] not in seen:
            print(f"(further violation of class {v['cls']} at run {v['run_index']}, not minimised)")
            rc = 1
        seen.add(v["cls"])
    if rc == 0 and tot["harness_errors"]:
        return 2
    if rc == 0 and tot["runs"] == 0:
        print(f"HARNESS-ERROR property={pid} no run executed")
        return 2
    return rc


def replay_outcome(path, rp, heap_perturb=None):
    """Execute a replay file in a fresh interpreter (pinned hash seed, no ASLR); returns the
    result dict of the run or {'harness_error': ...}."""
    env = dict(os.environ)
    env["PYTHONHASHSEED"] = str(rp["hash_seed"])
    env["PYTHONPATH"] = VERIF_DIR + os.pathsep + env.get("PYTHONPATH", "")
    env["PYTHONDONTWRITEBYTECODE"] = "1"
    if heap_perturb is not None:
        env["VERIF_HEAP_PERTURB"] = str(heap_perturb)
    else:
        env.pop("VERIF_HEAP_PERTURB", None)
    try:
        p = subprocess.run([*no_aslr_prefix(), PY, *rp.get("pyflags", []), "-c",
                            "from dst.driver import replay_child; replay_child()", path],
                           env=env, cwd=VERIF_DIR, capture_output=True, timeout=600)
        return json.loads(p.stdout.decode("utf8").strip().splitlines()[-1])
    except Exception as e:  # noqa: BLE001
        return {"harness_error": f"replay child failed: {e}"}


def replay(pid, path):
    with open(path) as f:
        rp = json.load(f)
    res = replay_outcome(path, rp)
    if "harness_error" in res and "violation" not in res:
        print("HARNESS-ERROR", res["harness_error"])
        return 2
    if "harness_error" in res:
        print("HARNESS-ERROR", res["harness_error"])
        return 2
    d = util.digest_of(res.get("events", []))
    got = _vclass(res)
    want = rp["violation"]["cls"]
    print(f"replay: expected class={want} digest={rp['digest'][:16]}  "
          f"got class={got} digest={d[:16]}")
    if got == want:
        if d != rp["digest"]:
            print("note: same violation class, event digest differs (tree changed?)")
        print(json.dumps(res["violation"], indent=1)[:3000])
        print(f"VIOLATION property={pid} replay={path}")
        return 1
    print("replay did not reproduce the recorded violation on this tree")
    return 0


def replay_child():
    util.repo_path_setup()
    with open(sys.argv[1]) as f:
        rp = json.load(f)
    P = load_prop(rp["property"])
    import pymbolic  # noqa: F401
    if hasattr(P, "template_init"):
        P.template_init({"prop": rp["property"], "base_seed": rp["base_seed"]})
    open_sigs = load_known_findings().get(rp["property"], {})
    k = int(os.environ.get("VERIF_HEAP_PERTURB", rp.get("heap_perturb", 0)))
    junk = [bytearray((37 * j) % 480 + 16) for j in range(61 * k)]
    del junk[::2]          # a deterministic change of the allocator's free lists
    res = run_full(P, rp["scenario"], open_sigs)
    del junk
    sys.stdout.write(json.dumps(res) + "\n")


def selftest(pid, a, quiet=False):
    """Determinism: the same run indices at -j1-equivalent and -j16, twice, must give
    identical per-run digests.  (Run from a fresh driver process each time.)"""
    n = a.runs or 160
    base = util.base_seed()
    res = []
    for jobs in (16, 4, 16):
        aggs = run_batch(pid, tier=a.tier, budget_s=3600, max_index=n, jobs=jobs,
                         extra={"keep_digests": True}, base=base)
        tot = merge_aggs(aggs)
        res.append(tot["digests"])
        if tot["harness_errors"]:
            print("HARNESS-ERROR in selftest", tot["harness_errors"][:2])
            return 2
    ok = res[0] == res[1] == res[2] and len(res[0]) == n
    if not quiet or not ok:
        print(f"determinism: {n} run seeds x 3 batches (j=16, j=4, j=16): "
              + ("all digests equal" if ok else "DIGESTS DIFFER"))
    if not ok:
        for k in res[0]:
            if not (res[0][k] == res[1].get(k) == res[2].get(k)):
                print("  run", k, res[0][k][:12], res[1].get(k, "")[:12], res[2].get(k, "")[:12])
        return 2
    return 0

# }}}
