"""C17 node: a real interpreter process that builds, hashes, pickles, unpickles and
compares expressions on request.  One request is outstanding at a time; the order of
everything is the simulator's.

Two ways to get a node process with a given (PYTHONHASHSEED, -O) configuration:

  * ``python [-O] -m dst.node_agent --stdio``       a brand-new interpreter per node
  * ``python [-O] -m dst.node_agent --zygote PATH`` a pristine interpreter that has only
    imported pymbolic and forks one child per accepted connection; the child is a node
    incarnation.  A forked child of a process that never touched an expression is
    indistinguishable from a fresh start with the same hash seed, and costs 3 ms, not 1 s.
"""
from __future__ import annotations

import base64
import json
import os
import pickle
import socket
import sys


def _agent_loop(rf, wf):
    import warnings
    warnings.simplefilter("ignore")
    import hashlib

    from dst import spec, util
    from dst.usertypes import USER_CLASSES
    from dst.util import canon, jkey
    import pymbolic
    import pymbolic.primitives as p
    from pymbolic.geometric_algebra import primitives as gap

    extra = dict(USER_CLASSES)
    for n in ("NablaComponent", "Nabla", "DerivativeSource", "MultiVectorVariable"):
        extra[n] = getattr(gap, n)
    handles = {}
    compiled = {}

    def build(term):
        return spec.Builder(extra).build(term)

    def reply(d):
        wf.write((json.dumps(d) + "\n").encode("utf8"))
        wf.flush()

    reply({"hello": os.getpid(), "hashseed": os.environ.get("PYTHONHASHSEED"),
           "optimize": sys.flags.optimize, "debug": __debug__})
    while True:
        line = rf.readline()
        if not line:
            return
        rq = json.loads(line)
        op = rq["op"]
        try:
            if op == "build":
                handles[rq["h"]] = build(rq["term"])
                reply({"ok": True, "is_expr": isinstance(handles[rq["h"]], p.Expression)})
            elif op == "hash" and rq.get("frames") is not None:
                # the first hash happens deep inside a call chain: only `frames` frames are left
                o = handles[rq["h"]]
                depth, fr = 0, sys._getframe()
                while fr is not None:
                    depth, fr = depth + 1, fr.f_back
                old_limit = sys.getrecursionlimit()
                sys.setrecursionlimit(depth + 4 + int(rq["frames"]))
                try:
                    hash(o)
                    out = {"ok": True, "raised": None, "exhausted": False}
                except RecursionError:
                    out = {"ok": True, "raised": None, "exhausted": True}
                except Exception as e:  # noqa: BLE001
                    out = {"ok": True, "raised": f"hash: {type(e).__name__}: {str(e)[:200]}"}
                finally:
                    sys.setrecursionlimit(old_limit)
                reply(out)
            elif op == "hash":
                o = handles[rq["h"]]
                try:
                    hash(o)
                    reply({"ok": True, "raised": None})
                except Exception as e:  # noqa: BLE001
                    reply({"ok": True, "raised": f"hash: {type(e).__name__}: {str(e)[:200]}"})
            elif op == "dumps":
                o = handles[rq["h"]]
                try:
                    ck = rq.get("container")
                    if ck:
                        # the message is a container that holds the expression (as a key,
                        # as an element, more than once)
                        o = {"dict": lambda: {o: "v"}, "set": lambda: {o},
                             "tuple": lambda: (o, o), "list": lambda: [o, [o, "x"]]}[ck]()
                    b = pickle.dumps(o, protocol=rq["proto"])
                    reply({"ok": True, "raised": None,
                           "bytes": base64.b64encode(b).decode("ascii")})
                except Exception as e:  # noqa: BLE001
                    reply({"ok": True, "raised": f"dumps: {type(e).__name__}: {str(e)[:200]}"})
            elif op == "loads":
                twin = build(rq["term"])
                res = {"ok": True, "raised": None}
                stage = "loads"
                try:
                    o = pickle.loads(base64.b64decode(rq["bytes"]))
                    ck = rq.get("container")
                    if ck:
                        stage = "container"
                        c = o
                        if ck in ("dict", "set"):
                            # the container was rebuilt here, with this process's hashes
                            res["container_ok"] = bool((twin in c) and len(c) == 1)
                            o = next(iter(c))
                        elif ck == "tuple":
                            res["container_ok"] = bool(len(c) == 2 and c[0] == twin and c[1] == twin)
                            o = c[0]
                        else:
                            res["container_ok"] = bool(c[0] == twin and c[1][0] == twin)
                            o = c[0]
                    handles[rq["h"]] = o
                    stage = "eq"
                    res["eq"] = bool(o == twin)
                    res["eq_rev"] = bool(twin == o)
                    res["ne"] = bool(o != twin)
                    stage = "hash"
                    res["hash_equal"] = hash(o) == hash(twin)
                    stage = "lookup"
                    res["in_dict"] = o in {twin: 1}
                    res["in_set"] = twin in {o}
                    res["in_frozenset"] = o in frozenset([twin])
                    stage = "fields"
                    res["canon_equal"] = jkey(canon(o)) == jkey(canon(twin))
                    res["type_equal"] = type(o) is type(twin)
                except Exception as e:  # noqa: BLE001
                    # an exception out of pymbolic while unpickling / comparing is an
                    # observation about the code under test, not a harness failure
                    res["raised"] = f"{stage}: {type(e).__name__}: {str(e)[:200]}"
                reply(res)
            elif op == "eq":
                a, b = handles[rq["a"]], handles[rq["b"]]
                try:
                    reply({"ok": True, "raised": None, "eq": bool(a == b),
                           "hash_equal": hash(a) == hash(b)})
                except Exception as e:  # noqa: BLE001
                    reply({"ok": True, "raised": f"eq: {type(e).__name__}: {str(e)[:200]}"})
            elif op == "lookup":
                o = handles[rq["h"]]
                twin = build(rq["term"])
                try:
                    reply({"ok": True, "raised": None, "in_dict": twin in {o: 1},
                           "in_set": o in {twin}, "eq": bool(o == twin),
                           "hash_equal": hash(o) == hash(twin)})
                except Exception as e:  # noqa: BLE001
                    reply({"ok": True, "raised": f"lookup: {type(e).__name__}: {str(e)[:200]}"})
            elif op == "digest":
                o = handles[rq["h"]]
                out = {"ok": True}
                try:
                    from pymbolic.mapper.persistent_hash import PersistentHashWalkMapper
                    h = hashlib.sha256()
                    PersistentHashWalkMapper(h)(o)
                    out["walk"] = h.hexdigest()
                except Exception as e:  # noqa: BLE001
                    out["walk"] = "exc:" + type(e).__name__
                try:
                    from pytools.persistent_dict import KeyBuilder
                    out["keybuilder"] = KeyBuilder()(o)
                except Exception as e:  # noqa: BLE001
                    out["keybuilder"] = "exc:" + type(e).__name__
                reply(out)
            elif op == "compile":
                o = handles[rq["h"]]
                try:
                    vs = rq["vars"]
                    if rq.get("as_variables"):
                        # a caller may pass Variable objects in a list of its own ...
                        vs = [p.Variable(v) for v in vs]
                    if rq.get("var_class"):
                        # ... or instances of a Variable subclass, the ones its expression uses
                        from dst.usertypes import USER_CLASSES
                        vcls = USER_CLASSES[rq["var_class"]]
                        vs = [vcls(v.name if isinstance(v, p.Variable) else v) for v in vs]
                    if rq.get("with_context"):
                        from dst.usertypes import CompiledWithContext
                        compiled[rq["c"]] = CompiledWithContext(o, vs)
                    else:
                        compiled[rq["c"]] = pymbolic.compile(o, vs)
                    if rq.get("as_variables") and rq.get("grow_list_after"):
                        # ... and go on using (growing) that list for its next kernel
                        vs.append(p.Variable("later_arg"))
                    reply({"ok": True, "compiled": True})
                except Exception as e:  # noqa: BLE001
                    reply({"ok": True, "compiled": False, "exc": type(e).__name__})
            elif op == "call":
                c = compiled[rq["c"]]
                args = [build(t) for t in rq["args"]]
                out = {"ok": True}
                try:
                    out["value"] = canon(c(*args))
                except Exception as e:  # noqa: BLE001
                    out["value"] = ["exc", type(e).__name__]
                try:
                    from pymbolic.mapper.evaluator import EvaluationMapper
                    names = [str(v) for v in c._Variables]
                    from pymbolic.mapper.dependency import DependencyMapper
                    rest = sorted(v.name for v in DependencyMapper(composite_leaves=False)(
                        c._Expression) if v.name not in names)
                    ctx = dict(zip(names + rest, args))
                    out["evaluator"] = canon(EvaluationMapper(ctx)(c._Expression))
                except Exception as e:  # noqa: BLE001
                    out["evaluator"] = ["exc", type(e).__name__]
                reply(out)
            elif op == "cdumps":
                try:
                    b = pickle.dumps(compiled[rq["c"]], protocol=rq["proto"])
                    reply({"ok": True, "raised": None,
                           "bytes": base64.b64encode(b).decode("ascii")})
                except KeyError:
                    raise
                except Exception as e:  # noqa: BLE001
                    reply({"ok": True, "raised": f"cdumps: {type(e).__name__}: {str(e)[:200]}"})
            elif op == "cloads":
                try:
                    compiled[rq["c"]] = pickle.loads(base64.b64decode(rq["bytes"]))
                    reply({"ok": True, "loaded": True})
                except Exception as e:  # noqa: BLE001
                    reply({"ok": True, "loaded": False, "exc": type(e).__name__})
            elif op == "exit":
                reply({"ok": True})
                return
            else:
                reply({"ok": False, "error": "unknown op " + op})
        except KeyError as e:
            reply({"ok": False, "missing": str(e)})
        except Exception as e:  # noqa: BLE001
            import traceback
            reply({"ok": False, "error": type(e).__name__ + ": " + str(e)[:300],
                   "tb": traceback.format_exc()[-1500:]})


def _zygote(path):
    import signal
    import warnings
    warnings.simplefilter("ignore")
    # import everything a node needs, touch nothing
    import pymbolic  # noqa: F401
    import pymbolic.mapper.persistent_hash  # noqa: F401
    import pymbolic.mapper.evaluator  # noqa: F401
    import pymbolic.mapper.dependency  # noqa: F401
    import pymbolic.compiler  # noqa: F401
    import pymbolic.geometric_algebra.primitives  # noqa: F401
    import pytools.persistent_dict  # noqa: F401
    import dst.spec  # noqa: F401
    import dst.usertypes  # noqa: F401
    import dst.util  # noqa: F401
    signal.signal(signal.SIGCHLD, signal.SIG_IGN)      # no zombies
    srv = socket.socket(socket.AF_UNIX, socket.SOCK_STREAM)
    try:
        os.unlink(path)
    except FileNotFoundError:
        pass
    srv.bind(path)
    srv.listen(64)
    sys.stdout.write("ready\n")
    sys.stdout.flush()
    ppid = os.getppid()
    srv.settimeout(5.0)
    while True:
        try:
            conn, _ = srv.accept()
        except socket.timeout:
            if os.getppid() != ppid:      # whoever started us is gone
                return
            continue
        pid = os.fork()
        if pid == 0:
            srv.close()
            signal.signal(signal.SIGCHLD, signal.SIG_DFL)
            rf = conn.makefile("rb")
            wf = conn.makefile("wb")
            try:
                _agent_loop(rf, wf)
            finally:
                os._exit(0)
        conn.close()


def main():
    from dst import util
    util.repo_path_setup()
    if "--zygote" in sys.argv:
        _zygote(sys.argv[sys.argv.index("--zygote") + 1])
    else:
        _agent_loop(sys.stdin.buffer, sys.stdout.buffer)


if __name__ == "__main__":
    main()
