"""C12 -- common-subexpression handling keeps meaning and shares work.

System under simulation: evaluator instances as stateful servers (their CSE cache is
created on first use and never cleared) whose environment consists of instrumented fakes,
fed tag_common_subexpressions output, original and pool expressions in a seeded order.
Oracles: EvalModel (plain evaluation of the untagged input by a fresh evaluator), the
handler-entry log for once-per-wrapper and for the work-sharing bound of the statement.
Fault: a fake raises on its n-th call mid-evaluation and the evaluator is reused.
See DESIGN.md section 3/C12.
"""
from __future__ import annotations

import random
import sys
from fractions import Fraction

from . import spec, util
from .util import InjectedFault, InjectedTypeError, canon, jkey

ID = "C12"
RULE = ("a run = 1-3 lists of 1-5 expressions over variables, constants, sums, products, "
        "divisions, powers and calls to fakes, generated with deliberate repetition (same "
        "object, equal rebuilds, commuted operands with multiplicity, nested repeats), each "
        "list wrapper-free or pre-wrapped (prefixes, scopes, wrapper around wrapper), tagged "
        "and evaluated in a seeded order by 1-4 fresh and reused evaluator instances (plain "
        "and cached); non-trivial = at least one repeated operation key in a list and at "
        "least one wrapper evaluated; distinct = distinct event-log digests among those")
STATE_MEASURE = ("digest of the sorted typed keys in each evaluator's _cse_cache_dict / _cache "
                 "after each evaluation")
REAL = ["pymbolic.cse (NormalizedKeyGetter, UseCountMapper, CSEMapper, tag_common_subexpressions)",
        "pymbolic.primitives.wrap_in_cse / make_common_subexpression",
        "CSECachingMapperMixin, EvaluationMapper, CachedEvaluationMapper"]
STUBS = ["environment functions f/g/h (call-logging, injective, fault-raising fakes)"]
ASSUMPTIONS = [
    "the once-only sentence is read literally: it applies to wrapper-free inputs, and two "
    "operations are 'the same' when they are equal as trees or are two sums / two products "
    "whose operands are equal as trees in another order (DESIGN.md 3/C12)",
    "values are exact rationals/ints; when a float arises (int/int) results are compared to "
    "1e-9 relative because merged commuted sums may legitimately associate differently",
    "the 'helpers leave constants, variables, subscripts ... unwrapped' sentence is a pure "
    "function of the argument and is only ridden along per helper as documented in the code",
]
# a share of every batch runs under python -O (asserts stripped)
BATCHES = [{"share": 0.85}, {"share": 0.15, "pyflags": ["-O"], "tier_suffix": "-O"}]
EXPECTED_PROBES = ["lists_dropped", "falsy_wrapper_values", "lists_with_repeats", "commuted_repeats", "nested_repeats",
                   "prewrapped_lists", "wrappers_evaluated", "post_fault_cache_hits",
                   "s2_bounds_checked", "reused_evaluator_evals"]

OPCLS = ("Sum", "Product", "Quotient", "FloorDiv", "Power", "Call")
P = "pymbolic.primitives."
# canon class names of wrapper nodes: the stock one and a user subclass of it
WRAPPERS = (P + "CommonSubexpression", "dst.c12.DerivedCse")


def _derived_cse_class():
    import pymbolic.primitives as p
    cls = globals().get("DerivedCse")
    if cls is None:
        class DerivedCse(p.CommonSubexpression):
            """an undecorated user subclass of the wrapper node (shares its mapper method)"""
        DerivedCse.__module__ = "dst.c12"
        DerivedCse.__qualname__ = "DerivedCse"
        globals()["DerivedCse"] = cls = DerivedCse
    return cls

# {{{ generation


def _gen_list(r, wrapper_free, nv, shared_blocks=None, shared_wrapped=None):
    """-> list of terms with deliberate repetition; shared_blocks carries building blocks
    from one list of the run to the next, so later lists repeat parts of earlier ones"""
    vars_ = ["a", "b", "c", "d"]

    def const():
        if nv:
            return r.choice([["i", 4], ["f", "4.0"], ["i", 2], ["f", "2.0"]])
        # -1 and -2 hash alike in CPython; a zero now and then (0*x, 0/x are expressions
        # that are "false" although their value need not be 0: x may be inf, nan, an array)
        return ["i", r.choice([2, 3, 5, 7, -1, -2, 2, 3, 5, 7, -1, -2, 0])]

    def leaf():
        return ["n", "Variable", [["s", r.choice(vars_)]]] if r.random() < 0.7 else const()

    blocks = shared_blocks if shared_blocks is not None else []

    def size(t):
        if t[0] == "n":
            return 1 + sum(size(x) for x in t[2])
        if t[0] == "t":
            return sum(size(x) for x in t[1])
        return 1

    def expr(d, maxd):
        if blocks and r.random() < 0.35:
            b = r.choice(blocks)
            x = r.random()
            if x < 0.5:
                return b
            if x < 0.8 and b[0] == "n" and b[1] in ("Sum", "Product", "Min", "Max"):
                kids = list(b[2][0][1])
                r.shuffle(kids)
                return ["n", b[1], [["t", kids]]]
            return b
        if d >= maxd or (d > 0 and r.random() < 0.3):
            return leaf()
        # no floor division: merged commuted float sums may associate differently, and a
        # discontinuous operation would amplify that legitimate rounding difference
        k = r.choice(["Sum", "Sum", "Product", "Product", "Quotient", "Quotient", "Power",
                      "Call", "Call", "MinMax", "Curried"])
        if k in ("Sum", "Product"):
            n = r.randint(2, 3)
            if r.random() < 0.05:
                n = 1                     # a one-operand sum/product is a legal node
            kids = [expr(d + 1, maxd) for _ in range(n)]
            if r.random() < 0.2:
                kids.append(kids[0])      # multiplicity: a*b*a vs a*a*b
            if r.random() < 0.08:
                kids = [kids[0], kids[0]]  # t + t
            return ["n", k, [["t", kids]]]
        if k == "MinMax":
            a, b = expr(d + 1, maxd), expr(d + 1, maxd)
            kids = [a, b] if r.random() < 0.5 else [b, a]
            return ["n", r.choice(["Min", "Max"]), [["t", kids]]]
        if k == "Curried":
            # a call whose callee is itself a call: k(e)(e2)
            inner = ["n", "Call", [["n", "Variable", [["s", "k"]]], ["t", [expr(d + 1, maxd)]]]]
            return ["n", "Call", [inner, ["t", [expr(d + 1, maxd)]]]]
        if k in ("Quotient", "FloorDiv"):
            return ["n", k, [expr(d + 1, maxd), expr(d + 1, maxd)]]
        if k == "Power":
            return ["n", "Power", [expr(d + 1, maxd), ["i", r.choice([2, 3])]]]
        return ["n", "Call", [["n", "Variable", [["s", r.choice(["f", "g", "h"])]]],
                              ["t", [expr(d + 1, maxd) for _ in range(r.randint(1, 2))]]]]

    # blocks nest earlier blocks, so sizes are capped (they would grow exponentially)
    for _ in range(r.randint(1, 4)):
        for _try in range(6):
            b = expr(1, r.choice([2, 3]))
            if size(b) <= 30:
                blocks.append(b)
                if not nv and r.random() < 0.3:
                    # an unequal twin whose hash is the same (-1 <-> -2, class swap)
                    # (no Quotient <-> Power swap: a power with a computed exponent explodes)
                    tw = spec.collide_variant(r, b, allowed=["Sum", "Product"])
                    if tw is not None:
                        blocks.append(tw)
                break
    out = []
    for _ in range(r.randint(1, 5)):
        for _try in range(8):
            t = expr(0, r.choice([2, 3, 4]))
            if size(t) <= 120:
                break
        else:
            t = leaf()
        out.append(t)

    if not wrapper_free:
        def prewrap(t, d=0):
            if t[0] == "n" and t[1] == "Variable" and t[2][0][1] in vars_ and r.random() < 0.04:
                # the constructor also wraps a bare variable (the helpers would not)
                return ["n", "CommonSubexpression", [t, ["none"], ["s", "pymbolic_eval"]]]
            if t[0] != "n":
                return t
            t2 = ["n", t[1], [(["t", [prewrap(x, d + 1) for x in f[1]]] if f[0] == "t"
                               else prewrap(f, d + 1)) for f in t[2]]]
            if t[1] in OPCLS and r.random() < 0.25:
                px = r.choice([["none"], ["s", "u"], ["s", "v"]])
                sc = r.choice([["s", "pymbolic_eval"], ["s", "pymbolic_eval"],
                               ["s", "pymbolic_expr"], ["s", "pymbolic_global"],
                               ["none"]])     # (deprecated spelling of the default scope)
                t2 = ["n", "DerivedCse" if r.random() < 0.12 else "CommonSubexpression",
                      [t2, px, sc]]
                if r.random() < 0.15:
                    t2 = ["n", "CommonSubexpression", [t2, ["none"], ["s", "pymbolic_eval"]]]
            return t2
        out = [prewrap(t) for t in out]
        if shared_wrapped is not None:
            # pre-wrapped lists of one run repeat each other's wrapped sub-terms verbatim
            # (equal wrappers, distinct objects)
            if shared_wrapped and r.random() < 0.7:
                w = r.choice(shared_wrapped)
                if r.random() < 0.3 and w[2][2] in (["none"], ["s", "pymbolic_eval"]):
                    # the same wrapper in the other spelling of the default scope
                    w = ["n", w[1], [w[2][0], w[2][1],
                                     ["none"] if w[2][2] != ["none"] else ["s", "pymbolic_eval"]]]
                out[r.randrange(len(out))] = ["n", "Sum", [["t", [w, leaf()]]]]

            def wrapped_subterms(t, acc):
                if t[0] == "n":
                    if t[1] in ("CommonSubexpression", "DerivedCse"):
                        acc.append(t)
                    for f in t[2]:
                        if f[0] == "t":
                            for x in f[1]:
                                wrapped_subterms(x, acc)
                        else:
                            wrapped_subterms(f, acc)
            acc = []
            for t in out:
                wrapped_subterms(t, acc)
            for w in acc[:3]:
                if size(w) <= 40:
                    shared_wrapped.append(w)
            del shared_wrapped[:-6]
    return out


def _gen_vars(r):
    if r.random() < 0.12:
        # array-valued environment (what numerical users evaluate with): every operation
        # returns a fresh array, and nothing may write into one it has handed out before
        dt = r.choice(["float64", "float64", "int64"])
        n = r.choice([1, 3])
        out = {}
        for v in ["a", "b", "c", "d"]:
            if r.random() < 0.15:
                # a scalar among arrays (a plain int next to int64 arrays: an exact Fraction
                # there would make the point at which a large product stops wrapping depend on
                # the order of its factors)
                out[v] = ["i", r.randint(1, 9)] if dt == "int64" else ["fr", r.randint(1, 9), 1]
            else:
                vals = [r.randint(0 if r.random() < 0.2 else 1, 9) for _ in range(n)]
                out[v] = ["nparr", dt, vals if dt == "int64" else
                          [x / r.choice([1, 2, 4]) for x in vals]]
        return out
    # a variable is zero now and then: wrappers whose value is falsy (0) are still values;
    # more rarely one is not-a-number (min/max keep their first operand then)
    return {v: (["fr", 0, 1] if r.random() < 0.2 else
                ["f", r.choice(["nan", "nan", "inf"])] if r.random() < 0.1 else
                ["fr", r.randint(1, 9), r.choice([1, 1, 2, 3])])
            for v in ["a", "b", "c", "d"]}


def generate(seed, tier):
    r = random.Random(seed)
    nv = r.random() < 0.1
    fault_run = (not nv) and r.random() < 0.3
    ops = []
    if not nv and r.random() < 0.03:
        # more distinct wrappers on one evaluator than any plausible bound on its cache,
        # then the first ones again
        k = r.randint(1050, 1400)
        return {"config": {"nv": False, "fault_run": False, "wide": k},
                "ops": [["widelist", 0, k],
                        ["evalall", {"ev": 0, "cached": False, "vars": _gen_vars(r)}, 0, [0, 1]]]}
    if not nv and r.random() < 0.03:
        # a long sum / product and the same operands in another order (longer than any
        # plausible cut-off for order normalisation)
        n = r.randint(33, 60)
        cls = r.choice(["Sum", "Product"])
        kids = [["n", "Product" if cls == "Sum" else "Sum",
                 [["t", [["n", "Variable", [["s", r.choice(["a", "b", "c", "d"])]]], ["i", j + 2]]]]]
                for j in range(n)]
        other = list(kids)
        r.shuffle(other)
        t1, t2 = ["n", cls, [["t", kids]]], ["n", cls, [["t", other]]]
        f = ["n", "Variable", [["s", "f"]]]
        terms = [["n", "Call", [f, ["t", [t1]]]], ["n", "Sum", [["t", [t2, ["i", 1]]]]]]
        # (exact rational values only: a product of forty int64 arrays overflows, and where it
        # wraps depends on the order of the factors)
        exact = {v: ["fr", r.randint(1, 9), r.choice([1, 1, 2, 3])] for v in ["a", "b", "c", "d"]}
        return {"config": {"nv": False, "fault_run": False, "widecomm": n},
                "ops": [["list", 0, terms, True], ["tag", 0],
                        ["evalall", {"ev": 0, "cached": False, "vars": exact}, 0, [0, 1]]]}
    if not nv and r.random() < 0.3:
        # churn: lists are built, tagged, evaluated and dropped (garbage collected) in many
        # rounds inside one process, so that anything the tagger or an evaluator keeps
        # beyond a call -- keyed on object identity, say -- meets recycled objects
        ev = {"ev": 0, "cached": r.random() < 0.3, "vars": _gen_vars(r)}
        nrounds = r.randint(6, 18)
        shared = []
        shared_w = []
        for lid in range(nrounds):
            if len(shared) > 8:
                del shared[:4]
            wf = r.random() < 0.6
            terms = _gen_list(r, wf, False, shared if r.random() < 0.7 else None, shared_w)
            ops.append(["list", lid, terms, wf])
            ops.append(["tag", lid])
            if r.random() < 0.5:
                ops.append(["evalall", {"ev": 100 + lid, "cached": r.random() < 0.3,
                                        "vars": _gen_vars(r)}, lid, list(range(len(terms)))])
            else:
                for _ in range(r.randint(1, 3)):
                    # (the tagger resets scopes; the original and the histogram tagger's
                    # output keep pre-existing wrappers as they are)
                    ops.append(["eval", ev, [r.choice(["tagged", "tagged", "orig", "tagged2"]),
                                             lid, r.randrange(len(terms))], None])
            ops.append(["drop", lid])
        return {"config": {"nv": False, "fault_run": False, "churn": True}, "ops": ops}
    nlists = r.randint(1, 3)
    lists = []
    shared = []
    shared_w = []
    for lid in range(nlists):
        wf = r.random() < 0.6
        terms = _gen_list(r, wf, nv, shared if r.random() < 0.6 else None, shared_w)
        ops.append(["list", lid, terms, wf])
        lists.append((lid, len(terms), wf))
    nev = r.randint(1, 4)
    evs = []
    for k in range(nev):
        evs.append({"ev": k, "cached": r.random() < 0.35, "vars": _gen_vars(r)})
        if r.random() < 0.15:
            evs[-1]["nochain"] = True
    for lid, n, wf in lists:
        if r.random() < 0.7:
            ops.append(["tag", lid] + ([r.choice(["append", "delete", "replace"])]
                                       if r.random() < 0.15 else []))
    # S2 history blocks: all tagged[i] of one list by one fresh evaluator
    nextev = nev
    for lid, n, wf in lists:
        if r.random() < (0.8 if wf else 0.5):
            e = {"ev": nextev, "cached": r.random() < 0.3, "vars": _gen_vars(r)}
            nextev += 1
            order = list(range(n))
            if r.random() < 0.5:
                r.shuffle(order)
            ops.append(["evalall", e, lid, order]
                       + ([r.getrandbits(16)] if r.random() < 0.12 else []))
            if r.random() < 0.4:
                e2 = {"ev": nextev, "cached": False, "vars": _gen_vars(r)}
                nextev += 1
                ops.append(["evalall2", e2, lid, list(order)])
    for lid, n, wf in lists:
        if r.random() < 0.15:
            ops.append(["evaltuple", {"ev": 900 + lid, "cached": True, "vars": _gen_vars(r)}, lid])
    nops = r.randint(3, 20)
    for c in range(nops):
        lid, n, wf = r.choice(lists)
        e = r.choice(evs)
        what = r.choices(["tagged", "orig", "tagged2"], weights=[60, 25, 15])[0]
        fault = None
        if fault_run and r.random() < 0.3:
            fault = {"kind": "env_raise", "site": "env:" + r.choice(["f", "g", "h"]),
                     "nth": r.randint(1, 4)}
            if r.random() < 0.4:
                fault["exc"] = "TypeError"     # what a function of the wrong arity raises
        op = ["eval", e, [what, lid, r.randrange(n)], fault]
        if r.random() < 0.12:
            op.append({"thread": True})
        ops.append(op)
    for _ in range(r.randint(0, 3)):
        lid, n, wf = r.choice(lists)
        ops.append(["wrap", r.choice(["wrap_in_cse", "make_cse", "make_cse_array", "make_cse_mv",
                                      "make_cse_register"]),
                    lid, r.randrange(n) + n * r.randrange(12), r.choice([None, "p"]),
                    r.choice([None, "pymbolic_eval", "pymbolic_expr"])])
    return {"config": {"nv": nv, "fault_run": fault_run}, "ops": ops}

# }}}


# {{{ keys of the statement: shallow 'same operation' and its deep closure

def _is_op(c):
    return isinstance(c, list) and c and c[0] == "E" and c[1].startswith(P) \
        and c[1][len(P):] in OPCLS


def _cls(c):
    return c[1][len(P):]


def erase(c):
    if isinstance(c, list) and c:
        if c[0] == "E":
            if c[1] in WRAPPERS:
                return erase(c[2][0])
            return ["E", c[1], [erase(f) for f in c[2]]]
        if c[0] == "tuple":
            return ["tuple", [erase(x) for x in c[1]]]
    return c


def r1(c):
    if _is_op(c) and _cls(c) in ("Sum", "Product"):
        return jkey([_cls(c), sorted(jkey(k) for k in c[2][0][1])])
    return jkey(c)


def deep(c):
    if isinstance(c, list) and c:
        if c[0] == "E":
            if c[1].startswith(P) and _cls(c) in ("Sum", "Product"):
                return jkey([_cls(c), sorted(deep(k) for k in c[2][0][1])])
            return jkey(["E", c[1], [deep(f) for f in c[2]]])
        if c[0] == "tuple":
            return jkey(["tuple", [deep(x) for x in c[1]]])
    return jkey(c)


def op_occurrences(c, acc):
    """every occurrence of an operation node in canon tree c"""
    if isinstance(c, list) and c:
        if c[0] == "E":
            if _is_op(c):
                acc.append(c)
            for f in c[2]:
                op_occurrences(f, acc)
        elif c[0] == "tuple":
            for x in c[1]:
                op_occurrences(x, acc)

# }}}


def _values_agree(a, b, any_dtype=False):
    import numpy as np
    if isinstance(a, np.ndarray) or isinstance(b, np.ndarray):
        if not (isinstance(a, np.ndarray) and isinstance(b, np.ndarray)):
            return False
        if a.shape != b.shape or (a.dtype != b.dtype and not any_dtype):
            return False
        with np.errstate(all="ignore"):
            fa, fb = a.astype("float64"), b.astype("float64")
            close = np.abs(fa - fb) <= 1e-9 * np.maximum(1.0, np.maximum(np.abs(fa), np.abs(fb)))
            return bool(np.all((fa == fb) | (np.isnan(fa) & np.isnan(fb)) | close))
    if callable(a) and callable(b):
        return type(a) is type(b)   # a bare function name evaluates to the context's function
    if isinstance(a, float) and isinstance(b, float) and a != a and b != b:
        return True        # both not-a-number
    if isinstance(a, float) and isinstance(b, float) and a == b:
        return True        # (also: the same infinity)
    if isinstance(a, float) or isinstance(b, float):
        try:
            fa, fb = float(a), float(b)
        except (TypeError, ValueError):
            return False
        return abs(fa - fb) <= 1e-9 * max(1.0, abs(fa), abs(fb))
    return type(a) is type(b) and a == b


def norm_scope(c):
    """canon form with the deprecated spelling scope=None of a wrapper replaced by the default
    scope it is documented to mean: two spellings, one wrapper"""
    if isinstance(c, list) and c:
        if c[0] == "E":
            fs = [norm_scope(f) for f in c[2]]
            if c[1] in WRAPPERS and len(fs) == 3 and fs[2] == ["none"]:
                fs[2] = ["str", "pymbolic_eval"]
            return ["E", c[1], fs]
        if c[0] == "tuple":
            return ["tuple", [norm_scope(x) for x in c[1]]]
    return c


def fold_false_wrappers(e, p):
    """Executable model of the known finding `identity-mapper-folds-false-wrapper`: what an
    IdentityMapper-derived mapper (the histogram tagger is one) does to pre-existing wrappers:
    a wrapper whose (mapped) child is "false" as an expression -- a product with a zero
    factor, a quotient with a zero numerator -- is replaced by the integer 0."""
    import dataclasses
    if isinstance(e, p.CommonSubexpression):
        ch = fold_false_wrappers(e.child, p)
        if p.is_zero(ch):
            return 0
        return e if ch is e.child else type(e)(ch, e.prefix, e.scope)
    if isinstance(e, p.Expression) and dataclasses.is_dataclass(e):
        vals = [fold_false_wrappers(getattr(e, f.name), p) for f in dataclasses.fields(e)]
        return type(e)(*vals)
    if isinstance(e, tuple):
        return tuple(fold_false_wrappers(x, p) for x in e)
    return e


def execute(scenario, open_sigs):
    import numpy as np
    import pymbolic.primitives as p
    from pymbolic.cse import tag_common_subexpressions
    from pymbolic.mapper.evaluator import CachedEvaluationMapper, EvaluationMapper
    from .obs import HandlerObserver
    from .simrt import FakeFunction, SimState

    cfg = scenario["config"]
    nv = cfg["nv"]
    B = spec.Builder({"DerivedCse": _derived_cse_class()})
    obs = HandlerObserver()
    events, known, probes, faults, states = [], [], {}, {}, set()
    violation = None
    steps = 0
    lists = {}       # lid -> dict(orig=[objs], tagged=None|[objs], wf=bool, canon=[...])
    evs = {}
    wrappers_evaluated = 0
    repeated_lists = 0

    def probe(k, n=1):
        probes[k] = probes.get(k, 0) + n

    def viol(cls, detail):
        nonlocal violation
        if violation is None:
            violation = {"cls": cls, "detail": detail}

    def kf(sig, what):
        if sig in open_sigs:
            if not any(k["sig"] == sig for k in known):
                known.append({"sig": sig, "what": what})
            return True
        return False

    class Ev:
        pass

    def make_ctx(desc, sim, log):
        ctx = {k: (np.array(v[2], dtype=v[1]) if v[0] == "nparr" else B.build(v))
               for k, v in desc["vars"].items()}
        for n, co in (("f", (3, 5, 7, 11)), ("g", (2, 9, 4, 6)), ("h", (8, 1, 3, 5))):
            ctx[n] = FakeFunction(n, sim, log, co)

        def curried(a, sim=sim, log=log):
            log.append(("k", (a,), ()))
            sim.hit("env:k")
            return lambda b: 17 * a + 19 * b + 23
        ctx["k"] = curried
        return ctx

    def get_ev(desc):
        k = desc["ev"]
        if k in evs:
            return evs[k]
        e = Ev()
        e.desc = desc
        e.sim = SimState()
        e.log = []
        cls = CachedEvaluationMapper if desc["cached"] else EvaluationMapper
        if desc.get("nochain") and not desc["cached"]:
            class NoChainEval(EvaluationMapper):
                """sets its context itself instead of calling the base constructor (as
                pymbolic's own geometric-algebra evaluators do)"""
                def __init__(self, context):
                    self.context = context
            cls = NoChainEval
        e.obj = cls(make_ctx(desc, e.sim, e.log))
        e.label = f"ev{k}"
        e.uncached = {}     # wrapper key -> started uncached computations
        e.child_runs = {}   # (owning wrapper, child key) -> computations of the child
        e.child_allow = {}
        e.allow = {}
        e.reached = set()
        e.faulted = False
        e.nevals = 0
        obs.watch(e.obj, e.label)
        evs[k] = e
        return e

    def reference(desc, expr):
        ev = EvaluationMapper(make_ctx(desc, SimState(), []))
        try:
            with np.errstate(all="ignore"):
                return ("ok", ev(expr))
        except Exception as ex:  # noqa: BLE001
            return ("exc", ex)

    def get_list(lid):
        return lists.get(lid)

    def ensure_tagged(L):
        if L["tagged"] is None:
            was = obs.active
            if was:
                sys.setprofile(None)
            L["tagged"] = tag_common_subexpressions(L["orig"])
            # the histogram-based tagger (pymbolic.mapper.cse_tagger): exact-tree repeats only,
            # so it is held to value preservation, once-per-wrapper and -- on wrapper-free
            # inputs -- no wrapper around a wrapper, not to the work-sharing bound
            from pymbolic.mapper.cse_tagger import CSETagMapper, CSEWalkMapper
            walk = CSEWalkMapper()
            if L["lid"] % 2:
                # a long-lived walker / tagger pair set up first and fed afterwards
                tm = CSETagMapper(walk)
            for o in L["orig"]:
                walk(o)
            if not L["lid"] % 2:
                tm = CSETagMapper(walk)
            L["tagged2"] = [tm(o) for o in L["orig"]]
            if was:
                sys.setprofile(obs._prof)
            check_tagged_structure(L)

    def nested_pairs(c):
        n = 0
        if isinstance(c, list) and c:
            if c[0] == "E":
                if c[1] in WRAPPERS:
                    ch = c[2][0]
                    if isinstance(ch, list) and ch and ch[0] == "E" \
                            and ch[1] in WRAPPERS:
                        n += 1
                for f in c[2]:
                    n += nested_pairs(f)
            elif c[0] == "tuple":
                for x in c[1]:
                    n += nested_pairs(x)
        return n

    def check_tagged_structure(L):
        # the tagger places no wrapper directly around another wrapper: for wrapper-free
        # inputs by the statement's second sentence; for pre-wrapped inputs it must at least
        # not *create* such a pair where the input had none
        if not L["wf"] and any(nested_pairs(c) for c in L["canon"]):
            return
        if L["wf"]:
            for i, t in enumerate(L.get("tagged2") or []):
                if nested_pairs(canon(t)):
                    viol("C12/wrapper-around-wrapper", {"list": L["lid"], "index": i,
                                                        "tagger": "cse_tagger"})
        if not nv and L.get("s2w"):
            # "every repeated subexpression ends up in, or inside, one shared wrapper": an
            # operation that occurs at least twice in the input -- as the very same tree,
            # pre-existing wrappers inside it included, and with no other input tree that looks
            # the same once wrappers are erased and operands of sums and products are put in
            # order -- is nowhere left outside all wrappers
            exact_of, occ_exact = {}, {}

            def walk_in(c):
                if isinstance(c, list) and c:
                    if c[0] == "E":
                        if _is_op(c):
                            kx, ke = jkey(c), deep(erase(c))
                            exact_of.setdefault(ke, set()).add(kx)
                            occ_exact[kx] = occ_exact.get(kx, 0) + 1
                        for f in c[2]:
                            walk_in(f)
                    elif c[0] == "tuple":
                        for x in c[1]:
                            walk_in(x)
            if sum(len(jkey(c)) for c in L["canon"]) < 60000:
                for c in L["canon"]:
                    walk_in(c)
                must_be_inside = {ke for ke, xs in exact_of.items()
                                  if len(xs) == 1 and occ_exact[next(iter(xs))] >= 2}

                def walk_out(c, i):
                    if isinstance(c, list) and c and violation is None:
                        if c[0] == "E":
                            if c[1] in WRAPPERS:
                                return           # everything below is inside a wrapper
                            if _is_op(c) and deep(erase(c)) in must_be_inside:
                                viol("C12/repeated-left-outside-wrappers",
                                     {"list": L["lid"], "index": i, "node": str(erase(c))[:400]})
                                return
                            for f in c[2]:
                                walk_out(f, i)
                        elif c[0] == "tuple":
                            for x in c[1]:
                                walk_out(x, i)
                if must_be_inside:
                    probe("repeat_placement_checked")
                    for i, t in enumerate(L["tagged"]):
                        walk_out(canon(t), i)
        for i, t in enumerate(L["tagged"]):
            bad = []

            def walk(c):
                if isinstance(c, list) and c:
                    if c[0] == "E":
                        if c[1] in WRAPPERS:
                            ch = c[2][0]
                            if isinstance(ch, list) and ch and ch[0] == "E" \
                                    and ch[1] in WRAPPERS:
                                bad.append(c)
                        for f in c[2]:
                            walk(f)
                    elif c[0] == "tuple":
                        for x in c[1]:
                            walk(x)
            walk(canon(t))
            if bad:
                viol("C12/wrapper-around-wrapper", {"list": L["lid"], "index": i,
                                                    "node": str(bad[0])[:400]})

    def cache_sig(e):
        keys = []
        for attr in ("_cache", "_cse_cache_dict"):
            d = getattr(e.obj, attr, None)
            if isinstance(d, dict):
                keys += [jkey(canon(k, obs.memo)) for k in d]
        keys.sort()
        return util.digest_of(keys)[:10]

    def folded_wrapper_explains(got, tag, orig_expr):
        """only for the histogram tagger (an IdentityMapper): the outcome is what plain
        evaluation of the input gives once its "false" pre-existing wrappers are the integer 0"""
        if tag[0] != "tagged2" or nv:
            return False
        try:
            folded = fold_false_wrappers(orig_expr, p)
        except Exception:  # noqa: BLE001
            return False
        if canon(folded) == canon(orig_expr):
            return False
        mo = reference(cur_desc[0], folded)
        if got[0] == "ok" and mo[0] == "ok":
            same = _values_agree(got[1], mo[1])
        else:
            same = got[0] == mo[0] and type(got[1]) is type(mo[1])
        return same and kf(
            "identity-mapper-folds-false-wrapper",
            "IdentityMapper.map_common_subexpression (inherited by cse_tagger.CSETagMapper) "
            "replaces a pre-existing wrapper whose child is 'false' as an expression (0*x, 0/x) "
            "by the integer 0: the value differs when x is nan, inf, an array, or raises (D14)")

    cur_desc = [None]

    def do_eval(e, expr, desc_for_ref, orig_expr, fault, tag, in_thread=False):
        """Evaluate expr on evaluator e; compare with plain evaluation of orig_expr."""
        nonlocal wrappers_evaluated
        cur_desc[0] = e.desc
        want = reference(e.desc, orig_expr)
        e.sim.disarm()
        fired0 = e.sim.fired
        if fault:
            e.sim.arm(fault["site"], fault["nth"],
                      InjectedTypeError if fault.get("exc") == "TypeError" else InjectedFault)
        mark = obs.mark()

        def run():
            sys.setprofile(obs._prof)
            try:
                with np.errstate(all="ignore"):
                    return ("ok", e.obj(expr))
            except InjectedFault as ex:
                return ("fault", ex)
            except Exception as ex:  # noqa: BLE001
                return ("exc", ex)
            finally:
                sys.setprofile(None)

        obs.active = True
        if in_thread:
            # the same long-lived evaluator, used from another caller thread (one caller at
            # a time: the thread runs to completion before the history goes on)
            import threading
            box = []
            th = threading.Thread(target=lambda: box.append(run()))
            th.start()
            th.join()
            got = box[0]
            probe("evals_from_another_thread")
        else:
            got = run()
        obs.stack.clear()
        e.sim.disarm()
        fired = e.sim.fired > fired0
        e.nevals += 1
        if e.nevals > 1:
            probe("reused_evaluator_evals")
        comps = [c for c in obs.since(mark) if c.inst == e.label]
        if got[0] != "ok":
            live = obs.frames_of_traceback(got[1])
            for c in comps:
                if c.frame is not None and id(c.frame) in live \
                        and c.handler == "map_common_subexpression_uncached":
                    ak = jkey(norm_scope(canon(c.expr, obs.memo)))
                    e.allow[ak] = e.allow.get(ak, 0) + 1
        hit_before = False
        started_here = {}
        wkeys = {}
        for c in comps:
            if c.handler.startswith("map_common_subexpression"):
                wkeys[id(c)] = jkey(norm_scope(canon(c.expr, obs.memo)))
        for c in comps:
            if c.handler == "map_common_subexpression_uncached":
                # within one evaluation a wrapper's computation is never started twice, not
                # even when the evaluation fails: the failure ends it
                started_here[wkeys[id(c)]] = started_here.get(wkeys[id(c)], 0) + 1
                if started_here[wkeys[id(c)]] > 1:
                    viol("C12/wrapper-computed-twice",
                         {"evaluator": e.desc, "wrapper": wkeys[id(c)][:500], "what": tag,
                          "started_in_one_evaluation": started_here[wkeys[id(c)]]})
        for c in comps:
            if c.handler == "map_common_subexpression":
                if wkeys[id(c)] in e.uncached and e.faulted:
                    hit_before = True
                e.reached.add(wkeys[id(c)])
            if c.handler == "map_common_subexpression_uncached":
                e.reached.add(wkeys[id(c)])
                n = e.uncached[wkeys[id(c)]] = e.uncached.get(wkeys[id(c)], 0) + 1
                wrappers_evaluated += 1
                if n > 1 + e.allow.get(wkeys[id(c)], 0):
                    viol("C12/wrapper-computed-twice",
                         {"evaluator": e.desc, "wrapper": wkeys[id(c)][:500], "count": n, "what": tag})
        # the child of a wrapper, computed on behalf of that wrapper (directly, or through a
        # chain of wrappers directly around it): once per distinct wrapper, however it is reached
        live = obs.frames_of_traceback(got[1]) if got[0] != "ok" else ()
        for c in comps:
            pc = c.parent
            if pc is None or not pc.handler.startswith("map_common_subexpression") \
                    or c.handler.startswith("map_common_subexpression") \
                    or not isinstance(pc.expr, p.CommonSubexpression):
                continue
            owner = pc.expr
            while isinstance(getattr(owner, "child", None), p.CommonSubexpression):
                owner = owner.child
            ok_ = jkey([canon(owner, obs.memo), c.key])
            n = e.child_runs[ok_] = e.child_runs.get(ok_, 0) + 1
            if c.frame is not None and id(c.frame) in live:
                e.child_allow[ok_] = e.child_allow.get(ok_, 0) + 1
            elif n > 1 + e.child_allow.get(ok_, 0) and not nv:
                viol("C12/wrapper-computed-twice",
                     {"evaluator": e.desc, "wrapper": str(canon(owner, obs.memo))[:400],
                      "child_runs": n, "what": tag,
                      "reached_through": str(canon(pc.expr, obs.memo))[:300]})
        if hit_before:
            probe("post_fault_cache_hits")
        if got[0] == "ok" and not nv:
            # every wrapper reached has been computed exactly once by now (in the
            # nested-variant configuration a typed twin may have filled the slot: D1)
            for k in e.reached:
                if e.uncached.get(k, 0) < 1:
                    viol("C12/wrapper-never-computed", {"evaluator": e.desc, "wrapper": k[:500]})
        obs.release_frames(mark)
        if fired:
            faults["env_raise"] = faults.get("env_raise", 0) + 1
            e.faulted = True
            if got[0] != "fault":
                viol("C12/fault-swallowed", {"what": tag})
        elif got[0] == "ok" and want[0] == "ok":
            # (a Fraction scalar among arrays makes the dtype depend on the order in which a
            # merged, commuted sum adds its terms: object vs float64 -- only the nested-variant
            # configuration, which is about types, compares dtypes)
            if not (_values_agree(got[1], want[1], any_dtype=not nv) and (
                    not nv or type(got[1]) is type(want[1]))):
                det = {"what": tag, "evaluator": e.desc, "got": str(canon(got[1])),
                       "want": str(canon(want[1])), "expr": str(canon(expr))[:600],
                       "orig": str(canon(orig_expr))[:600]}
                same_number = _values_agree(float(got[1]), float(want[1])) \
                    if isinstance(got[1], (int, float, Fraction)) \
                    and isinstance(want[1], (int, float, Fraction)) else (
                        isinstance(got[1], np.ndarray)
                        and _values_agree(got[1], want[1], any_dtype=True))
                if nv and same_number and kf(
                        "nested-typed-constant-conflation",
                        "x+4 and x+4.0 are merged by the tagger / share one CSE cache entry: "
                        "the value comes back with the other constant's type (D1)"):
                    pass
                elif folded_wrapper_explains(got, tag, orig_expr):
                    pass
                else:
                    viol("C12/value-differs", det)
        elif got[0] != want[0] or (got[0] == "exc" and type(got[1]) is not type(want[1])):
            if not folded_wrapper_explains(got, tag, orig_expr):
                viol("C12/outcome-differs", {"what": tag, "got": [got[0], type(got[1]).__name__],
                                             "want": [want[0], type(want[1]).__name__]})
        states.add(cache_sig(e))
        ccd = getattr(e.obj, "_cse_cache_dict", None)
        if ccd and any(isinstance(v, (int, float, Fraction)) and v == 0 for v in ccd.values()):
            probe("falsy_wrapper_values")
        return got, comps

    try:
        for opi, op in enumerate(scenario["ops"]):
            if violation is not None:
                break
            steps += 1
            k = op[0]
            if k in ("list", "widelist"):
                if k == "widelist":
                    _, lid, nw = op
                    a = p.Variable("a")
                    ts = [p.Product((a, i + 2)) for i in range(int(nw))]
                    objs = [p.Sum(tuple(ts)), p.Sum((*ts, p.Variable("b")))]
                    terms, wf = [None, None], True
                else:
                    _, lid, terms, wf = op
                    objs = []
                    for t in terms:
                        o = B.build(t)
                        objs.append(o)
                L = {"lid": lid, "orig": objs, "tagged": None, "wf": wf,
                     "canon": [canon(o, obs.memo) for o in objs]}
                # the work-sharing sentence is about inputs built from variables, constants,
                # sums, products, divisions, powers and calls -- nothing else
                s2_classes = {P + n for n in ("Variable", "Sum", "Product", "Quotient",
                                              "FloorDiv", "Power", "Call")}

                def only_s2(c):
                    if isinstance(c, list) and c:
                        if c[0] == "E":
                            return c[1] in s2_classes and all(only_s2(f) for f in c[2])
                        if c[0] == "tuple":
                            return all(only_s2(x) for x in c[1])
                    return True
                L["s2"] = wf and all(only_s2(c) for c in L["canon"])
                s2_classes.update(WRAPPERS)
                L["s2w"] = all(only_s2(c) for c in L["canon"])     # ... plus wrappers
                lists[lid] = L
                occ = []
                for c in L["canon"]:
                    op_occurrences(erase(c) if not wf else c, occ)
                r1s = [r1(c) for c in occ]
                lits = [jkey(c) for c in occ]
                if len(set(r1s)) < len(r1s):
                    repeated_lists += 1
                    probe("lists_with_repeats")
                    if len(set(lits)) > len(set(r1s)):
                        probe("commuted_repeats")
                if not wf:
                    probe("prewrapped_lists")
                events.append([opi, "list", lid, len(objs)])
                continue
            if k == "tag":
                L = get_list(op[1])
                if L is None:
                    continue
                ensure_tagged(L)
                how = op[2] if len(op) > 2 else None
                if how and violation is None:
                    # the caller tags the same objects again after it has edited the list the
                    # first call gave it: tagging is a function of its input
                    res1 = tag_common_subexpressions(L["orig"])
                    if how == "append":
                        res1.append(0)
                    elif how == "delete" and res1:
                        del res1[0]
                    elif res1:
                        res1[-1] = p.Variable("edited")
                    res2 = tag_common_subexpressions(L["orig"])
                    want_c = [jkey(canon(t)) for t in L["tagged"]]
                    if [jkey(canon(t)) for t in res2] != want_c:
                        viol("C12/retag-differs", {"list": op[1], "edit": how,
                                                   "first": len(want_c), "again": len(res2)})
                    probe("retagged_after_edit")
                events.append([opi, "tag", op[1], [util.digest_of(canon(t))[:10] for t in L["tagged"]]])
                continue
            if k == "eval":
                _, desc, (what, lid, i), fault = op[:4]
                knobs = op[4] if len(op) > 4 else {}
                L = get_list(lid)
                if L is None or not L["orig"]:
                    continue
                i = i % len(L["orig"])
                e = get_ev(desc)
                if what in ("tagged", "tagged2"):
                    ensure_tagged(L)
                    if violation is not None:
                        break
                    expr = L[what][i]
                else:
                    expr = L["orig"][i]
                got, comps = do_eval(e, expr, desc, L["orig"][i], fault, [what, lid, i],
                                     in_thread=bool(knobs.get("thread")))
                events.append([opi, "eval", desc["ev"], what, lid, i, got[0],
                               util.digest_of(canon(got[1]))[:10] if got[0] == "ok" else None,
                               len(comps)])
                continue
            if k in ("evalall", "evalall2"):
                _, desc, lid, order = op[:4]
                tmask = op[4] if len(op) > 4 else 0
                which = "tagged" if k == "evalall" else "tagged2"
                L = get_list(lid)
                if L is None or not L["orig"] or desc["ev"] in evs:
                    continue
                ensure_tagged(L)
                if violation is not None:
                    break
                e = get_ev(desc)
                allcomps = []
                okall = True
                idxs = [j % len(L["orig"]) for j in order]
                idxs = list(dict.fromkeys(idxs))
                for j in range(len(L["orig"])):
                    if j not in idxs:
                        idxs.append(j)
                for pos, j in enumerate(idxs):
                    got, comps = do_eval(e, L[which][j], desc, L["orig"][j], None,
                                         [which, lid, j], in_thread=bool((tmask >> (pos % 16)) & 1))
                    if got[0] != "ok":
                        okall = False
                    allcomps += comps
                    if violation is not None:
                        break
                if violation is None and okall and L["s2"] and not nv and which == "tagged2":
                    # the histogram-based tagger wraps exact-tree repeats only and stops at the
                    # outermost one; what the statement's sharing sentence still implies for it:
                    # an operation that occurs c >= 2 times is performed fewer than c times
                    occ = []
                    for c in L["canon"]:
                        op_occurrences(c, occ)
                    from collections import Counter
                    cin = Counter(jkey(c) for c in occ)
                    cout = Counter()
                    for cpt in allcomps:
                        if cpt.handler.startswith("map_common_subexpression"):
                            continue
                        c = canon(cpt.expr, obs.memo)
                        if _is_op(c):
                            cout[jkey(erase(c))] += 1
                    probe("histogram_tagger_bounds_checked")
                    for key, n in cout.items():
                        if cin.get(key, 0) >= 2 and n >= cin[key]:
                            viol("C12/operation-repeated",
                                 {"tagger": "cse_tagger", "list": lid, "key": key[:400],
                                  "occurs": cin[key], "computed": n})
                            break
                    events.append([opi, k, desc["ev"], lid, len(allcomps)])
                    continue
                if violation is None and okall and L["s2"] and not nv:
                    # S2 bound: per deep key, computations <= number of distinct shallow keys
                    occ = []
                    for c in L["canon"]:
                        op_occurrences(c, occ)
                    allowance = {}
                    occ_deep = [deep(c) for c in occ]
                    for c, dk in zip(occ, occ_deep):
                        allowance.setdefault(dk, set()).add(r1(c))
                    counts = {}
                    for cpt in allcomps:
                        if cpt.handler in ("map_common_subexpression",
                                           "map_common_subexpression_uncached"):
                            continue
                        c = canon(cpt.expr, obs.memo)
                        if not _is_op(c):
                            continue
                        d = deep(erase(c))
                        counts[d] = counts.get(d, 0) + 1
                    probe("s2_bounds_checked")
                    nested = False
                    for d, n in counts.items():
                        al = len(allowance.get(d, ()))
                        if n > al:
                            viol("C12/operation-repeated",
                                 {"list": lid, "deep_key": d[:500], "computed": n,
                                  "distinct_shallow_keys": al,
                                  "inputs": [str(c)[:300] for c in L["canon"]][:5]})
                            break
                    # reach: a repeated key nested inside another repeated key
                    from collections import Counter
                    cnt = Counter(occ_deep)
                    rep = {d for d, n in cnt.items() if n > 1}
                    for c, dk in zip(occ, occ_deep):
                        if dk in rep and not nested and len(occ) <= 200:
                            inner = []
                            for f in c[2]:
                                op_occurrences(f, inner)
                            if any(deep(x) in rep for x in inner):
                                nested = True
                    if nested:
                        probe("nested_repeats")
                events.append([opi, "evalall", desc["ev"], lid, len(allcomps)])
                continue
            if k == "evaltuple":
                # the module-level entry point, handed all tagged expressions at once: the
                # context functions are called as often as one evaluator instance calls them
                _, desc, lid = op
                L = get_list(lid)
                if L is None or not L["orig"]:
                    continue
                ensure_tagged(L)
                if violation is not None:
                    break
                from pymbolic.mapper.evaluator import evaluate
                logs = []
                outs = []
                for how in ("entry", "instance"):
                    sim, log = SimState(), []
                    ctx = make_ctx(desc, sim, log)
                    tup = tuple(L["tagged"])
                    try:
                        with np.errstate(all="ignore"):
                            v = evaluate(tup, ctx) if how == "entry" else \
                                CachedEvaluationMapper(ctx)(tup)
                        outs.append("ok")
                    except Exception as ex:  # noqa: BLE001
                        outs.append(type(ex).__name__)
                    logs.append(sorted(str(x[0]) for x in log))
                probe("tuple_entry_point_evaluations")
                if outs[0] != outs[1] or logs[0] != logs[1]:
                    viol("C12/entry-point-repeats-work",
                         {"list": lid, "outcomes": outs,
                          "calls_entry_point": len(logs[0]), "calls_one_instance": len(logs[1])})
                events.append([opi, "evaltuple", lid, len(logs[0])])
                continue
            if k == "drop":
                # nothing the simulator still holds may keep the list's objects alive
                expr = got = comps = allcomps = x = cpt = c = occ = None
                L = lists.pop(op[1], None)
                if L is not None:
                    # let go of every reference the simulator holds so the objects die
                    L.clear()
                    del L
                    dead = evs.pop(100 + op[1], None)      # the list's own evalall evaluator
                    if dead is not None:
                        obs.watched.pop(id(dead.obj), None)
                        del dead
                    obs.release_frames(0)
                    obs.log.clear()
                    obs.memo.clear()
                    obs._keep[:] = [e.obj for e in evs.values()]
                    import gc
                    gc.collect()
                    probe("lists_dropped")
                events.append([opi, "drop", op[1]])
                continue
            if k == "wrap":
                _, helper, lid, i, prefix, scope = op
                L = get_list(lid)
                if L is None or not L["orig"]:
                    continue
                x = L["orig"][i % len(L["orig"])]
                check_wrap(helper, x, prefix, scope, p, np, viol, pick=i)
                events.append([opi, "wrap", helper])
    finally:
        sys.setprofile(None)
    probe("wrappers_evaluated", wrappers_evaluated)
    nontrivial = repeated_lists > 0 and wrappers_evaluated > 0
    return {"events": events, "violation": violation, "known": known, "probes": probes,
            "faults": faults, "nontrivial": nontrivial, "steps": steps + obs.calls,
            "states": sorted(states)[:64]}


def check_wrap(helper, x, prefix, scope, p, np, viol, pick=0):
    """Ride-along, pure: what each helper documents about itself."""
    CSE = p.CommonSubexpression
    # constants of every kind pymbolic accepts (booleans are constants, not numbers)
    consts = [7, 2.5, True, False, np.bool_(True), np.int64(3), 1 + 2j, np.float32(0.5), 0]
    k1, k2 = consts[pick % len(consts)], consts[(pick // len(consts) + 3) % len(consts)]
    for cst in (k1, k2):
        if helper == "make_cse" and p.make_common_subexpression(cst, prefix, scope) is not cst:
            viol("C12/helper", {"helper": helper, "what": "constant was wrapped",
                                "constant": repr(cst)})

    def made_ok(elem, r):
        if p.is_constant(elem):
            return p.is_constant(r) and r == elem
        if isinstance(elem, CSE) and (scope is None or scope == p.cse_scope.EVALUATION
                                      or elem.scope == scope):
            return r is elem
        return isinstance(r, CSE) and r.child is elem

    if helper == "wrap_in_cse":
        for v in (p.Variable("q"), p.Variable("q")[3]):
            if p.wrap_in_cse(v, prefix) is not v:
                viol("C12/helper", {"helper": helper, "what": "variable/subscript was wrapped"})
        r = p.wrap_in_cse(x, prefix)
        if isinstance(x, CSE):
            if not isinstance(r, CSE) or r.child is not x.child:
                viol("C12/helper", {"helper": helper, "what": "wrapped node wrapped again"})
        elif isinstance(x, (p.Variable, p.Subscript)):
            if r is not x:
                viol("C12/helper", {"helper": helper, "what": "variable/subscript was wrapped"})
        elif isinstance(x, p.Expression):
            if not (isinstance(r, CSE) and r.child is x and r.prefix == prefix):
                viol("C12/helper", {"helper": helper, "what": "node not wrapped as asked"})
        return
    if helper == "make_cse_register":
        # a user class that becomes a constant class after an instance was first handled
        class Late:
            def __init__(self, v):
                self.v = v
        lt = Late(3)
        try:
            first = p.make_common_subexpression(lt, prefix, scope)
        except Exception:  # noqa: BLE001
            first = None
        p.register_constant_class(Late)
        try:
            second = p.make_common_subexpression(lt, prefix, scope)
            arr = np.empty(2, dtype=object)
            arr[0], arr[1] = Late(4), x
            third = p.make_common_subexpression(arr, prefix, scope)
            if second is not lt or not isinstance(third[0], Late):
                viol("C12/helper", {"helper": helper,
                                    "what": "a registered constant was wrapped"})
        finally:
            p.unregister_constant_class(Late)
        after = p.make_common_subexpression(lt, prefix, scope)
        if not isinstance(after, CSE) or (first is not None and not isinstance(first, CSE)):
            viol("C12/helper", {"helper": helper,
                                "what": "a non-constant object was not wrapped"})
        return
    if helper == "make_cse":
        r = p.make_common_subexpression(x, prefix, scope)
        if not made_ok(x, r):
            viol("C12/helper", {"helper": helper, "what": "scalar not handled as documented",
                                "x": str(canon(x))[:200], "r": str(canon(r))[:200]})
        return
    if helper == "make_cse_array":
        base = np.empty(3, dtype=object)
        base[0], base[1], base[2] = x, k1, p.Variable("q") + 1
        m = np.empty((2, 3), dtype=object)
        for i in range(2):
            for j in range(3):
                m[i, j] = p.Variable("m")[i, j] + j
        m[0, 1] = x
        m[1, 2] = k2
        # the same entries seen through different memory layouts: componentwise means by index
        for name, arr in (("contiguous", base), ("reversed view", base[::-1]), ("matrix", m),
                          ("transposed", m.T), ("fortran order", np.asfortranarray(m)),
                          ("flipped rows", m[::-1])):
            r = p.make_common_subexpression(arr, prefix, scope)
            if not (isinstance(r, np.ndarray) and r.shape == arr.shape
                    and all(made_ok(arr[i], r[i]) for i in np.ndindex(arr.shape))):
                viol("C12/helper", {"helper": helper, "layout": name,
                                    "what": "object array not wrapped componentwise"})
        return
    if helper == "make_cse_mv":
        from pymbolic.geometric_algebra import MultiVector
        arr = np.empty(3, dtype=object)
        arr[0], arr[1], arr[2] = x, (k1 if not isinstance(k1, (bool, np.bool_, complex)) else 3), \
            p.Variable("q") + 2
        mv = MultiVector(arr)
        r = p.make_common_subexpression(mv, prefix, scope)
        if not (isinstance(r, MultiVector) and set(r.data) == set(mv.data)
                and all(made_ok(mv.data[b], r.data[b]) for b in mv.data)):
            viol("C12/helper", {"helper": helper, "what": "multivector not wrapped componentwise"})


def simplifications(scn):
    ops = scn["ops"]
    cfg = scn["config"]
    for i, op in enumerate(ops):
        if op[0] == "list":
            _, lid, terms, wf = op
            for j in range(len(terms)):
                if len(terms) > 1:
                    yield {"config": cfg, "ops": ops[:i] + [["list", lid, terms[:j] + terms[j + 1:], wf]]
                           + ops[i + 1:]}
            for j, t in enumerate(terms):
                for s in spec.subterms(t):
                    cands = [s] if spec.is_expr_term(s) else (
                        [x for x in s[1] if spec.is_expr_term(x)] if s[0] == "t" else [])
                    for c in cands:
                        yield {"config": cfg,
                               "ops": ops[:i] + [["list", lid, terms[:j] + [c] + terms[j + 1:], wf]]
                               + ops[i + 1:]}
        elif op[0] == "eval" and op[3] is not None:
            yield {"config": cfg, "ops": ops[:i] + [[op[0], op[1], op[2], None]] + ops[i + 1:]}
