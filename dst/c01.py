"""C01 -- structural equality, consistent hashing, immutability of expression nodes.

S-mode: one caller drives a seeded history of hash / == / look-up / copy / pickle /
mapper / rebinding ops on a shared pool of live objects.  T-mode: 2-4 caller threads
share the (not yet hashed) pool under a seeded line-level scheduler (dst/sched.py).
Oracle: StructModel (util.model_eq over canon forms taken at construction).
See DESIGN.md section 3/C01.
"""
from __future__ import annotations

import random
import sys
import types

from . import spec, util
from .util import InjectedInterrupt, canon, jkey, model_eq

ID = "C01"
RULE = ("a run = a pool of 6-14 live expression objects generated in families (base tree, "
        "equal-but-not-identical twins, near-misses differing in exactly one field, typed "
        "constant variants 1/1.0/True/np.int64(1), -1/-2 hash-colliding constants, deprecated "
        "constructor spellings) over all 33 built-in node classes, the geometric-calculus "
        "nodes, MultiVectorVariable and user classes created inside the run (decorated, "
        "decorated hash=False, undecorated-legacy with/without extra init args, pure legacy), "
        "driven by 10-40 ops (S-mode) or 2-4 threads x 4-10 ops under a seeded line-level "
        "pre-emption schedule (T-mode); non-trivial = at least one op ran on an object after "
        "its first hash and the pool holds a model-equal twin pair; distinct = distinct "
        "event-log digests among non-trivial runs")
STATE_MEASURE = ("(pool shape digest, set of pool objects that carry a cached hash) after each "
                 "op; in T-mode additionally the pre-emption site sequence")
REAL = ["pymbolic.primitives (generated __eq__/__hash__/__getstate__/__setstate__, "
        "Expression legacy backend, __post_init__ normalisations, frozen dataclasses)",
        "pymbolic stock mappers used as touching operations", "pickle, copy, dict, set",
        "real threads (T-mode) whose interleaving is decided by the simulator"]
STUBS = ["thread baton / line-level scheduler (T-mode)", "user node classes created in-run"]
ASSUMPTIONS = [
    "Rational and Polynomial are not in the pool: they are number types with value-based "
    "__eq__ and no __hash__ by design and are outside the anchors of C01",
    "raw float('nan') leaves are not generated (the NaN node is the supported spelling)",
    "T-mode explores interleavings at line (optionally opcode) granularity under the GIL; "
    "torn writes inside one bytecode are out of reach without free-threaded CPython",
    "under python -O the ops that expect a rebinding to be refused are not generated (the "
    "statement limits raising to the default interpreter mode); rebinding a field of a *copy* "
    "is, there as in the default mode: the original must stay what it was",
    "field values honour Python's own contract (a == b implies hash(a) == hash(b)): no numpy "
    "dtype next to the scalar type it equals, no np.float64(2**53) next to 2**53+1 -- for such "
    "leaves the generated __eq__ (hash first) already answers False on the unchanged tree",
    "a pair of objects whose fields cannot be compared at all (numpy scalar == () raises) has "
    "no defined equality: == and look-ups that raise for that reason alone are not reported",
]
EXPECTED_PROBES = ["ops_after_first_hash", "twin_pairs", "near_miss_pairs", "typed_variant_pairs",
                   "lookup_hits", "lookup_misses", "rebind_attempts", "copies_before_hash",
                   "copies_after_hash", "user_class_objects", "legacy_objects", "deprecated_spellings",
                   "preemptions_taken", "runs_with_preemption_inside_eq_or_hash"]
BUDGET_SCALE = {"quick": 1.0, "thorough": 1.0}
# a share of every batch runs the interpreter with -O (frozen=__debug__ is off, asserts are
# stripped): everything except the rebinding clause must still hold there
BATCHES = [{"share": 0.85}, {"share": 0.15, "pyflags": ["-O"], "tier_suffix": "-O"}]

_USER_FIELD_NAMES = ["f0", "f1", "f2", "g0", "g1"]

# {{{ user classes created inside the run

def class_source(cs):
    """Source text of one user class from its JSON spec."""
    name, kind, base = cs["name"], cs["kind"], cs.get("base") or "Expression"
    fields = cs.get("fields", [])
    fopts = cs.get("fopts") or [None] * len(fields)

    def decl(f, j):
        o = fopts[j] if j < len(fopts) else None
        return f"    {f}: object\n" if not o else f"    {f}: object = dataclasses.field({o})\n"

    # methods left in the class body from before it was converted to a dataclass: the
    # decorator replaces __eq__/__hash__, the others are consistent with what it generates
    left = {"eq": "    def __eq__(self, other):\n        return NotImplemented\n",
            "ne": "    def __ne__(self, other):\n        return not self.__eq__(other)\n",
            "repr": "    def __repr__(self):\n        return '<' + type(self).__name__ + '>'\n",
            "hashnone": "    __hash__ = None\n",
            # a hand-written __match_args__ that leaves fields out (dataclass() keeps it)
            "matchargs": (f"    __match_args__ = ({fields[0]!r},)\n" if fields else "")}
    leftover = "".join(left[x] for x in cs.get("leftover") or [])
    if kind == "dc":
        body = "".join(decl(f, j) for j, f in enumerate(fields)) + leftover or "    pass\n"
        return f"@expr_dataclass()\nclass {name}({base}):\n{body}"
    if kind == "dc_nohash":
        body = "".join(decl(f, j) for j, f in enumerate(fields))
        allf = cs["all_fields"]
        hm = cs.get("hash_mode") or "full"
        if hm == "inherit":
            # hash=False and no __hash__ in the body: the class keeps the hash it inherits
            return f"@expr_dataclass(hash=False)\nclass {name}({base}):\n{body or '    pass' + chr(10)}"
        if hm == "const":
            tup = ""                    # a legal, maximally coarse hash: one value per class
        elif hm == "first":
            tup = f"self.{allf[0]}, " if allf else ""
        else:
            tup = "".join(f"self.{f}, " for f in allf)
        body += (f"    def __hash__(self):\n"
                 f"        return hash(({name!r}, {tup}))\n")
        return f"@expr_dataclass(hash=False)\nclass {name}({base}):\n{body}"
    if kind == "dc_noinit":
        # decorated with init=False: a hand-written constructor
        body = "".join(f"    {f}: object\n" for f in fields)
        args = ", ".join(fields)
        # (the constructor may store the fields in another order than they are declared in)
        order = list(reversed(fields)) if cs.get("reverse_store") else fields
        sets = "".join(f"        object.__setattr__(self, {f!r}, {f})\n" for f in order)
        body += f"    def __init__(self, {args}):\n{sets}"
        return f"@expr_dataclass(init=False)\nclass {name}(Expression):\n{body}"
    if kind == "dc_derived":
        # a field that is not a constructor argument, filled in by __post_init__ -- declared
        # in the middle, so it is stored after the fields behind it
        body = f"    {fields[0]}: object\n"
        body += f"    {fields[1]}: str = dataclasses.field(init=False)\n"
        body += "".join(f"    {f}: object\n" for f in fields[2:])
        body += (f"    def __post_init__(self):\n"
                 f"        object.__setattr__(self, {fields[1]!r}, "
                 f"'d' + type(self.{fields[0]}).__name__)\n")
        return f"@expr_dataclass()\nclass {name}(Expression):\n{body}"
    if kind == "legacy_transform":
        # undecorated subclass whose constructor is not a plain store of its arguments
        return (f"class {name}(Variable):\n"
                f"    def __init__(self, name):\n"
                f"        super().__init__('p_' + name)\n"
                f"    mapper_method = 'map_{name.lower()}'\n")
    if kind == "legacy_subsub":
        # a plain subclass of a legacy subclass: it only inherits the init-args protocol
        return f"class {name}({base}):\n    pass\n"
    if kind == "legacy_sub":
        # undecorated subclass of a decorated class
        allf = cs["all_fields"]
        basef = allf[:len(allf) - len(fields)]
        if not fields:
            return f"class {name}({base}):\n    mapper_method = 'map_{name.lower()}'\n"
        args = ", ".join(allf)
        sets = "".join(f"        object.__setattr__(self, {f!r}, {f})\n" for f in fields)
        tup = "".join(f"self.{f}, " for f in allf)
        return (f"class {name}({base}):\n"
                f"    init_arg_names = {tuple(allf)!r}\n"
                f"    def __init__(self, {args}):\n"
                f"        super().__init__({', '.join(basef)})\n{sets}"
                f"    def __getinitargs__(self):\n        return ({tup})\n"
                f"    mapper_method = 'map_{name.lower()}'\n")
    if kind == "pure_legacy":
        args = ", ".join(fields)
        sets = "".join(f"        self.{f} = {f}\n" for f in fields) or "        pass\n"
        tup = "".join(f"self.{f}, " for f in fields)
        return (f"class {name}(Expression):\n"
                f"    init_arg_names = {tuple(fields)!r}\n"
                f"    def __init__(self, {args}):\n{sets}"
                f"    def __getinitargs__(self):\n        return ({tup})\n"
                f"    mapper_method = 'map_{name.lower()}'\n")
    raise ValueError(kind)


def make_user_classes(specs):
    import pymbolic.primitives as p
    mod = sys.modules.get("dst_dyn")
    if mod is None:
        mod = types.ModuleType("dst_dyn")
        sys.modules["dst_dyn"] = mod
    ns = mod.__dict__
    import dataclasses
    ns.update({"Expression": p.Expression, "expr_dataclass": p.expr_dataclass,
               "dataclasses": dataclasses, "__name__": "dst_dyn"})
    for n in spec.NODE_FIELDS:
        ns[n] = getattr(p, n)
    out = {}
    for cs in specs:
        src = class_source(cs)
        exec(compile(src, f"<user class {cs['name']}>", "exec"), ns)
        cls = ns[cs["name"]]
        if cs.get("pyname"):
            # two unrelated classes that happen to share their __name__ (two packages each
            # defining `Tagged`); __qualname__ stays unique so pickle finds the right one
            cls.__name__ = cs["pyname"]
        if cs.get("same_qualname_as"):
            # the same class statement executed twice: module, qualified name and fields agree
            cls.__name__ = cls.__qualname__ = cs["same_qualname_as"]
            cls._sim_uid = cs["name"]
        cls.__module__ = "dst_dyn"
        out[cs["name"]] = cls
    return out


def gen_user_classes(r, optimized=False):
    specs = []
    n = r.randint(1, 4)
    # now and then every user class of the run spells its fields as "private" names
    USER_FIELD_NAMES = (["_" + f for f in _USER_FIELD_NAMES] if r.random() < 0.15
                        else _USER_FIELD_NAMES)
    decorated = []   # (name, all_fields)
    for k in range(n):
        name = f"U{k}"
        kind = r.choice(["dc", "dc", "dc_nohash", "dc_noinit", "legacy_sub", "legacy_sub",
                         "pure_legacy", "legacy_transform", "dc_derived"]
                        # (under -O dataclasses are not frozen: what dataclass() itself does to
                        # __hash__ then depends on the decorator's arguments)
                        + (["dc_nohash"] * 3 if optimized else []))
        if kind == "legacy_transform":
            specs.append({"name": name, "kind": kind, "base": "Variable", "fields": [],
                          "all_fields": ["name"]})
            continue
        if kind == "dc_noinit":
            fields = USER_FIELD_NAMES[:r.randint(1, 2)]
            specs.append({"name": name, "kind": kind, "base": None, "fields": fields,
                          "all_fields": fields, "reverse_store": r.random() < 0.5})
            continue
        if kind == "dc_derived":
            fields = USER_FIELD_NAMES[:r.randint(2, 3)]
            # the constructor takes every field but the derived one
            specs.append({"name": name, "kind": kind, "base": None, "fields": fields,
                          "all_fields": fields, "ctor_fields": [fields[0]] + fields[2:]})
            continue
        if kind in ("dc", "dc_nohash"):
            if decorated and r.random() < 0.5:
                base, basef = r.choice(decorated)
            elif r.random() < 0.3:
                base, basef = r.choice([("Variable", ["name"]), ("Sum", ["children"]),
                                        ("Power", ["base", "exponent"]),
                                        ("CallWithKwargs", ["function", "parameters",
                                                            "kw_parameters"])])
            else:
                base, basef = None, []
            nf = r.randint(0 if base else 1, 2)
            if base is None and kind == "dc" and r.random() < 0.1:
                nf = 0           # a field-less marker class (legacy subclasses may add state)
            fields = [f for f in USER_FIELD_NAMES if f not in basef][:nf]
            allf = basef + fields
            cs = {"name": name, "kind": kind, "base": base, "fields": fields,
                  "all_fields": allf}
            if r.random() < 0.35:
                # per-field dataclass options: none of them takes the field out of what the
                # statement calls "fields"
                cs["fopts"] = [r.choice([None, "compare=False", "hash=False", "repr=False",
                                         "compare=False, hash=False"]) for _ in fields]
            if kind == "dc" and r.random() < 0.25:
                cs["leftover"] = r.sample(["eq", "ne", "repr", "hashnone", "matchargs"],
                                          r.randint(1, 2))
            if kind == "dc_nohash":
                # (no hash of its own only under a dataclass node: what a class directly under
                # Expression would inherit is the legacy hash, which stores its cache by plain
                # assignment and cannot work on a frozen instance)
                cs["hash_mode"] = r.choice(["full", "full", "first", "const"]
                                           + (["inherit", "inherit"] if base else []))
            specs.append(cs)
            if kind == "dc":
                decorated.append((name, allf))
                if r.random() < 0.25:
                    specs.append(dict(cs, name=name + "c", same_qualname_as=name))
        elif kind == "legacy_sub":
            if decorated and r.random() < 0.6:
                base, basef = r.choice(decorated)
            else:
                base, basef = r.choice([("Variable", ["name"]), ("Power", ["base", "exponent"]),
                                        ("CommonSubexpression", ["child", "prefix", "scope"]),
                                        ("FunctionSymbol", []), ("Wildcard", [])])
            nf = r.randint(0, 2)
            fields = [f for f in USER_FIELD_NAMES if f not in basef][:nf]
            specs.append({"name": name, "kind": kind, "base": base, "fields": fields,
                          "all_fields": basef + fields})
            if fields and r.random() < 0.4:
                specs.append({"name": name + "s", "kind": "legacy_subsub", "base": name,
                              "fields": [], "all_fields": basef + fields})
        else:
            fields = USER_FIELD_NAMES[:r.randint(1, 3)]
            dup = r.random() < 0.35
            specs.append({"name": name, "kind": kind, "base": None, "fields": fields,
                          "all_fields": fields, "pyname": "Tagged" if dup else None})
            if dup:
                specs.append({"name": name + "b", "kind": kind, "base": None, "fields": fields,
                              "all_fields": fields, "pyname": "Tagged"})
    return specs

# }}}


# {{{ generation

GA_FIELDS = {"NablaComponent": ["ci", "nid"], "Nabla": ["nid"], "DerivativeSource": ["e", "nid"],
             "MultiVectorVariable": ["s"]}


def _field_kinds_for(allf, base_kinds):
    return base_kinds + ["any"] * (len(allf) - len(base_kinds))


class _Gen(spec.TermGen):
    def field(self, kind, depth):
        r = self.rng
        if kind == "anyt":
            if r.random() < 0.5:
                return ["t", [self.term(depth + 1) if r.random() < 0.4 else self.const()
                              for _ in range(r.randint(0, 3))]]
            kind = "any"
        if kind == "any":
            x = r.random()
            if x < 0.5:
                return self.term(depth + 1)
            if x < 0.7:
                return self.const()
            if x < 0.85:
                return ["s", r.choice(self.idents)]
            if r.random() < 0.5:
                return ["t", [self.const(), ["s", r.choice(self.idents)]]]
            # a tuple-valued field of any length, the empty one included
            return ["t", [self.term(depth + 1) if r.random() < 0.5 else self.const()
                          for _ in range(r.randint(0, 3))]]
        if kind == "ci":
            return ["i", r.randint(0, 2)]
        if kind == "nid":
            return r.choice([["s", "id0"], ["i", 3], ["t", [["s", "n"], ["i", 1]]]])
        if kind == "kw" and r.random() < 0.3:
            keys = r.sample(["a", "b", "c"], r.randint(1, 3))
            # deprecated: a plain dict, or a read-only view of one
            return [r.choice(["d", "d", "mp"]), [[k, self.term(depth + 1)] for k in keys]]
        if kind == "op" and r.random() < 0.15:
            return ["s", r.choice(["eq", "ne", "le", "lt", "ge", "gt"])]   # deprecated names
        if kind == "sc" and r.random() < 0.15:
            return ["none"]                                              # deprecated None
        return super().field(kind, depth)


def _at(t, path):
    for step in path:
        t = t[step]
    return t


def _mutate_one_field(r, t, g):
    """Return a copy of term t that differs in exactly one leaf-ish position."""
    paths = []

    def walk(x, path):
        k = x[0]
        if k in ("i", "f", "b", "np", "s", "none", "ty", "c"):
            paths.append(path)
        elif k == "n":
            for j, c in enumerate(x[2]):
                walk(c, path + [2, j])
            if len(x[2]) == 0:
                pass
        elif k == "t":
            paths.append(path)        # tuple length change
            for j, c in enumerate(x[1]):
                walk(c, path + [1, j])
        elif k in ("im", "d"):
            paths.append(path)
            for j, (kk, c) in enumerate(x[1]):
                walk(c, path + [1, j, 1])

    walk(t, [])
    if not paths:
        return None
    import copy as _c
    t2 = _c.deepcopy(t)
    path = r.choice(paths)
    tpaths = [q for q in paths if _at(t, q)[0] == "t"]
    if tpaths and r.random() < 0.3:
        path = r.choice(tpaths)          # a tuple that is a proper prefix of the other one
    parent, last = None, None
    node = t2
    for step in path:
        parent, last = node, step
        node = node[step]
    k = node[0]
    if k == "i":
        new = ["i", node[1] + r.choice([1, -1, 2])]
    elif k == "f":
        new = ["f", repr(float(node[1]) + 1.5)]
    elif k == "b":
        new = ["i", 5]
    elif k == "np":
        new = ["np", node[1], repr(int(float(node[2])) + 3)]
    elif k == "c":
        new = ["c", node[1], "2.0"]
    elif k == "s":
        s = node[1]
        alt = {"==": "!=", "!=": "==", "<": "<=", "<=": "<", ">": ">=", ">=": ">",
               "eq": "ne", "ne": "eq", "le": "lt", "lt": "le", "ge": "gt", "gt": "ge",
               "pymbolic_eval": "pymbolic_expr", "pymbolic_expr": "pymbolic_global",
               "pymbolic_global": "pymbolic_eval"}
        new = ["s", alt.get(s, s + "_")]
    elif k == "none":
        new = ["s", "u"]
    elif k == "ty":
        new = ["ty", "float32" if node[1] != "float32" else "float64"]
    elif k == "t":
        if node[1] and r.random() < 0.5:
            new = ["t", node[1][:-1]]
        else:
            new = ["t", node[1] + [["i", 9]]]
    elif k in ("im", "d"):
        if r.random() < 0.5 and node[1]:
            new = [k, [[node[1][0][0] + "x", node[1][0][1]]] + node[1][1:]]
        else:
            new = [k, node[1] + [["zz", ["i", 1]]]]
    else:
        return None
    if parent is None:
        return new
    parent[last] = new
    return t2


def normalise_term(t):
    """The spelling a term is documented to be normalised to by __post_init__."""
    k = t[0]
    if k == "n":
        fs = [normalise_term(x) for x in t[2]]
        if t[1] == "Comparison" and len(fs) == 3 and fs[1][0] == "s":
            names = {"eq": "==", "ne": "!=", "le": "<=", "lt": "<", "ge": ">=", "gt": ">"}
            fs[1] = ["s", names.get(fs[1][1], fs[1][1])]
        if t[1] == "CommonSubexpression" and len(fs) == 3 and fs[2] == ["none"]:
            fs[2] = ["s", "pymbolic_eval"]
        if t[1] == "CallWithKwargs" and len(fs) == 3 and fs[2][0] in ("d", "mp"):
            fs[2] = ["im", fs[2][1]]
        return ["n", t[1], fs]
    if k == "t":
        return ["t", [normalise_term(x) for x in t[1]]]
    if k in ("im", "d", "mp"):
        return [k, [[kk, normalise_term(v)] for kk, v in t[1]]]
    return t


def _reorder_kw(r, t):
    """Copy of t with the items of one keyword mapping in another insertion order (mapping
    equality does not look at the order)."""
    import copy as _c
    paths = []

    def walk(x, path):
        k = x[0]
        if k in ("im", "d", "mp") and len(x[1]) >= 2:
            paths.append(path)
        if k == "n":
            for j, c in enumerate(x[2]):
                walk(c, path + [2, j])
        elif k == "t":
            for j, c in enumerate(x[1]):
                walk(c, path + [1, j])
        elif k in ("im", "d", "mp"):
            for j, (kk, c) in enumerate(x[1]):
                walk(c, path + [1, j, 1])
    walk(t, [])
    if not paths:
        return None
    t2 = _c.deepcopy(t)
    node = t2
    for step in r.choice(paths):
        node = node[step]
    node[1].reverse()
    return t2


def _retype_one(r, t):
    """Copy of t with one numeric leaf replaced by an ==-equal value of another type."""
    import copy as _c
    paths = []

    def walk(x, path):
        k = x[0]
        if k in ("i", "b") or (k == "f" and float(x[1]) == int(float(x[1]))) or k == "np":
            paths.append(path)
        elif k == "n":
            for j, c in enumerate(x[2]):
                walk(c, path + [2, j])
        elif k == "t":
            for j, c in enumerate(x[1]):
                walk(c, path + [1, j])
    walk(t, [])
    if not paths:
        return None
    t2 = _c.deepcopy(t)
    path = r.choice(paths)
    parent, last, node = None, None, t2
    for step in path:
        parent, last = node, step
        node = node[step]
    v = int(float(node[1])) if node[0] != "np" else int(float(node[2]))
    if node[0] == "b":
        v = int(bool(node[1]))
    opts = [["i", v], ["f", repr(float(v))], ["np", "int64", repr(v)], ["np", "float64", repr(float(v))]]
    if v in (0, 1):
        opts.append(["b", bool(v)])
    opts = [o for o in opts if o != node]
    new = r.choice(opts)
    if parent is None:
        return new
    parent[last] = new
    return t2


def generate(seed, tier):
    r = random.Random(seed)
    optimized = tier.endswith("-O")
    tmode = r.random() < 0.3
    ucs = gen_user_classes(r, optimized) if r.random() < 0.6 else []
    classes = list(spec.ALL_BUILTIN) + list(GA_FIELDS)
    extra_fields = dict(GA_FIELDS)
    base_kinds = {"Variable": ["s"], "Sum": ["E"], "Power": ["e", "e"],
                  "CommonSubexpression": ["e", "px", "sc"],
                  "CallWithKwargs": ["e", "E0", "kw"]}
    kinds_of = {}
    for cs in ucs:
        b = cs.get("base")
        if b in kinds_of:
            bk = kinds_of[b]
        elif b in base_kinds:
            bk = base_kinds[b]
        else:
            bk = []
        kinds_of[cs["name"]] = _field_kinds_for(cs.get("ctor_fields") or cs["all_fields"], bk)
        if cs.get("hash_mode") in ("first", "const"):
            # with a coarse hash every comparison gets past the hash fast path
            kinds_of[cs["name"]] = [("anyt" if k == "any" else k) for k in kinds_of[cs["name"]]]
        extra_fields[cs["name"]] = kinds_of[cs["name"]]
        classes += [cs["name"]] * 3
    dup_pairs = [(cs["name"][:-1], cs["name"]) for cs in ucs
                 if cs.get("pyname") and cs["name"].endswith("b")]
    dup_pairs += [(cs["same_qualname_as"], cs["name"]) for cs in ucs
                  if cs.get("same_qualname_as")]
    pool = []
    g = _Gen(r, classes=classes, max_depth=r.choice([1, 2, 2, 3, 4]), pool=pool,
             idents=["x", "y", "z"], p_ref=0.2, p_fresh=0.1, p_leaf=0.35,
             const_kinds=("i", "i", "f", "b", "npi", "npf", "c"),
             const_values=(0, 1, 2, -1, -2, 3))
    g.extra_fields = extra_fields
    g.allow_short = True
    ops = []
    nfam = r.randint(2, 4)
    names = []
    fam_info = []
    for f in range(nfam):
        base = g.term(0)
        while not spec.is_expr_term(base):
            base = g.term(0)
        bname = f"o{len(names)}"
        ops.append(["def", bname, base])
        names.append(bname)
        pool.append(bname)
        members = [bname]
        for _ in range(r.randint(1, 3)):
            x = r.random()
            if x < 0.35:
                t = ["fresh", bname]
                kind = "twin"
                if r.random() < 0.3:
                    t = _reorder_kw(r, base) or t
            elif x < 0.58:
                # unequal, but with an equal hash: class swapped among same-shape classes
                t = spec.collide_variant(r, base)
                kind = "collide"
                if dup_pairs and base[0] == "n" and r.random() < 0.7:
                    # ... or the same fields in the namesake class
                    for a, b in dup_pairs:
                        if base[1] in (a, b):
                            t = ["n", b if base[1] == a else a, base[2]]
            elif x < 0.7:
                t = _mutate_one_field(r, base, g)
                kind = "near"
            elif x < 0.85:
                t = _retype_one(r, base)
                kind = "typed"
            else:
                t = ["r", bname]
                kind = "alias"
            if t is None or not spec.is_expr_term(t):
                t, kind = ["fresh", bname], "twin"
            nm = f"o{len(names)}"
            ops.append(["def", nm, t])
            names.append(nm)
            members.append(nm)
        fam_info.append(members)
    # a deep family: the only trees on which the interpreter stack can run out mid-hash
    deep_names = []
    if r.random() < 0.25:
        depth = r.randint(25, 90)
        t = ["n", "Variable", [["s", "x"]]]
        for lvl in range(depth):
            k = r.choice(["Sum", "Product", "Power", "CommonSubexpression", "Quotient"])
            if k in ("Sum", "Product"):
                t = ["n", k, [["t", [t, ["i", lvl % 5]]]]]
            elif k in ("Power", "Quotient"):
                t = ["n", k, [t, ["i", 2 + lvl % 3]]]
            else:
                t = ["n", k, [t, ["none"], ["s", "pymbolic_eval"]]]
        bname = f"o{len(names)}"
        ops.append(["def", bname, t])
        names.append(bname)
        deep_names.append(bname)
        twin = f"o{len(names)}"
        ops.append(["def", twin, ["fresh", bname]])
        names.append(twin)
        deep_names.append(twin)
        fam_info.append([bname, twin])
    # the -1/-2 family (CPython: hash(-1) == hash(-2))
    if r.random() < 0.3:
        for v in (-1, -2):
            nm = f"o{len(names)}"
            ops.append(["def", nm, ["n", "Sum", [["t", [["n", "Variable", [["s", "x"]]], ["i", v]]]]]])
            names.append(nm)

    def gen_op(allow_fault=True):
        k = r.choices(
            ["hash", "eq", "lookup", "copy", "deepcopy", "pickle", "map", "rebind", "delete",
             "addattr", "eqforeign", "sweep", "copyrebind", "retarget"],
            weights=[14, 22, 16, 6, 6, 8, 8, 7 if not optimized else 0,
                     3 if not optimized else 0, 2 if not optimized else 0, 3, 4, 3, 1])[0]
        if k == "copyrebind":
            # a copy is taken and a field of the *copy* is rebound (which works on legacy
            # objects, and on every object under -O): the original must not notice
            return ["copyrebind", r.choice(names), r.choice(["copy", "deepcopy", "pickle"]),
                    r.randint(0, 3), r.choice([["i", 99], ["s", "zz"]])]
        if k == "retarget":
            # a user class is pointed at another mapper method at run time
            return ["retarget", r.choice(names)]
        if k == "hash":
            return ["hash", r.choice(names)]
        if k == "eq":
            fam = r.choice(fam_info)
            a = r.choice(fam) if r.random() < 0.7 else r.choice(names)
            b = r.choice(fam) if r.random() < 0.7 else r.choice(names)
            return ["eq", a, b]
        if k == "lookup":
            key = r.choice(names)
            probe = r.choice(names) if r.random() < 0.4 else key
            return ["lookup", r.choice(["dict", "set", "frozenset"]), key, ["fresh", probe]]
        if k in ("copy", "deepcopy"):
            return [k, r.choice(names)]
        if k == "pickle":
            return ["pickle", r.choice(names), r.randint(0, 5)]
        if k == "map":
            return ["map", r.choice(["get_hash", "is_equal", "identity", "dependency", "str",
                                     "repr", "evaluate",
                                     "substitute", "flatten", "force", "wrap_in_cse",
                                     "make_cse", "operators", "inplace_operators", "flattened",
                                     "tag_cse",
                                     "persistent_hash", "nodecount"]), r.choice(names)]
        if k in ("rebind", "delete"):
            return [k, r.choice(names), r.randint(0, 3),
                    r.choice([["i", 99], ["s", "zz"], ["n", "Variable", [["s", "q"]]]])]
        if k == "addattr":
            return ["addattr", r.choice(names)]
        if k == "eqforeign":
            return ["eqforeign", r.choice(names), r.choice([["i", 5], ["s", "x"], ["none"],
                                                             ["t", [["i", 1]]], ["np", "int64", "5"],
                                                             ["np", "float64", "1.0"], ["fr", 1, 2],
                                                             ["b", True], ["c", "1.0", "0.0"]])]
        return ["sweep"]

    if not tmode:
        nops = r.randint(10, 40)
        for _ in range(nops):
            op = gen_op()
            if r.random() < 0.12 and op[0] in ("hash", "eq", "lookup", "pickle", "deepcopy"):
                op = ["async", r.randint(1, 60), op]
            elif deep_names and r.random() < 0.3:
                # the interpreter stack runs out in the middle of hashing / comparing
                a = r.choice(deep_names)
                inner = r.choice([["hash", a], ["eq", a, r.choice(deep_names)],
                                  ["lookup", "dict", a, ["fresh", r.choice(deep_names)]]])
                op = ["stack", r.randint(4, 200), inner]
            ops.append(op)
        ops.append(["sweep"])
        cfg = {"mode": "S", "user_classes": ucs, "optimized": optimized}
    else:
        nthreads = r.randint(2, 4)
        scripts = []
        for _ in range(nthreads):
            sc = []
            for _ in range(r.randint(4, 10)):
                k = r.choices(["hash", "eq", "lookup", "copy", "deepcopy", "pickle", "map"],
                              weights=[25, 25, 20, 5, 5, 10, 10])[0]
                while True:
                    op = gen_op()
                    if op[0] == k:
                        break
                sc.append(op)
            scripts.append(sc)
        npre = r.randint(0, 6)
        horizon = r.choice([50, 200, 800, 2500])
        pre = sorted(r.randint(1, horizon) for _ in range(npre))
        schedule = [[s, r.randint(0, nthreads - 1)] for s in pre]
        opcodes = r.random() < 0.25
        intr = ([r.randint(0, nthreads - 1), r.randint(1, 300)] if r.random() < 0.15 else None)
        ops.append(["threads", scripts, schedule,
                    {"opcodes": opcodes, "interrupt": None if opcodes else intr}])
        ops.append(["sweep"])
        cfg = {"mode": "T", "user_classes": ucs, "optimized": optimized}
    return {"config": cfg, "ops": ops}

# }}}


# {{{ execution

class _World:
    pass


def _async_tracer(nth):
    cnt = [0]

    def tracer(frame, event, arg):
        fn = frame.f_code.co_filename
        if "pymbolic" not in fn and not fn.startswith("<dataclass augmentation"):
            return None

        def local(frame, event, arg):
            if event == "line":
                cnt[0] += 1
                if cnt[0] == nth:
                    raise InjectedInterrupt("async")
            return local
        return local
    return tracer


def _fieldwise_undefined(oa, ob, exc_type):
    """Does comparing the two objects' fields pairwise (what the statement defines equality
    by) itself raise exc_type?"""
    try:
        for f in util._expr_field_names(oa):
            bool(getattr(oa, f) == getattr(ob, f))
    except exc_type:
        return True
    except Exception:  # noqa: BLE001
        return False
    return False


def execute(scenario, open_sigs):
    import copy
    import pickle

    import pymbolic.primitives as p

    # everything an op may import is imported now: a thread parked by the scheduler while it
    # holds an import lock would stall every other thread that needs the same module
    import hashlib  # noqa: F401
    import pymbolic.cse  # noqa: F401
    import pymbolic.geometric_algebra  # noqa: F401
    import pymbolic.mapper.analysis  # noqa: F401
    import pymbolic.mapper.dependency  # noqa: F401
    import pymbolic.mapper.evaluator  # noqa: F401
    import pymbolic.mapper.flattener  # noqa: F401
    import pymbolic.mapper.persistent_hash  # noqa: F401
    import pymbolic.mapper.stringifier  # noqa: F401
    import pymbolic.mapper.substitutor  # noqa: F401
    import pymbolic.rational  # noqa: F401
    import pymbolic.traits  # noqa: F401
    import pytools  # noqa: F401

    cfg = scenario["config"]
    ucs = cfg.get("user_classes", [])
    try:
        user = make_user_classes(ucs)
    except Exception as e:  # noqa: BLE001
        # a shrunk class list may have lost a base class: treat as empty
        user = {}
        ucs = []
    uc_kind = {cs["name"]: cs for cs in ucs}
    from pymbolic.geometric_algebra import primitives as gap
    extra = dict(user)
    for n in ("NablaComponent", "Nabla", "DerivativeSource", "MultiVectorVariable"):
        extra[n] = getattr(gap, n)
    B = spec.Builder(extra)

    events, known, probes, faults, states = [], [], {}, {}, set()
    violation = None
    W = _World()
    W.objs = {}        # name -> object
    W.canon0 = {}      # name -> canon at construction
    W.first_hash = {}  # name -> first observed hash
    W.dead = set()     # names removed after a (known) successful rebind
    W.copy_ctr = 0
    steps = 0
    ops_after_hash = 0

    def probe(k, n=1):
        probes[k] = probes.get(k, 0) + n

    def viol(cls, detail):
        nonlocal violation
        if violation is None:
            violation = {"cls": cls, "detail": detail}

    def kf(sig, what):
        if sig in open_sigs:
            if not any(k["sig"] == sig for k in known):
                known.append({"sig": sig, "what": what})
            return True
        return False

    def live():
        return [n for n in W.objs if n not in W.dead]

    def register(name, o):
        W.objs[name] = o
        W.canon0[name] = canon(o)
        cn = type(o).__name__
        if cn in uc_kind:
            probe("user_class_objects")
            if uc_kind[cn]["kind"] in ("legacy_sub", "pure_legacy"):
                probe("legacy_objects")

    def is_hashed(o):
        try:
            return "_hash_value" in vars(o)
        except TypeError:
            return False

    def do_hash(name, results=None):
        o = W.objs[name]
        try:
            h = hash(o)
        except (InjectedInterrupt, RecursionError):
            raise
        except Exception as e:  # noqa: BLE001
            viol("C01/hash-raised", {"obj": name, "exc": f"{type(e).__name__}: {e}"[:200],
                                     "canon": str(W.canon0[name])[:400]})
            return None
        fh = W.first_hash.setdefault(name, h)
        if fh != h:
            viol("C01/hash-changed", {"obj": name, "canon": str(W.canon0[name])[:400]})
        return h

    def check_hash_pairs(name, h):
        for n2, h2 in W.first_hash.items():
            if n2 == name or n2 in W.dead:
                continue
            if h != h2 and model_eq(W.canon0[name], W.canon0[n2]):
                viol("C01/hash-unequal-for-equal",
                     {"a": name, "b": n2, "canon_a": str(W.canon0[name])[:400],
                      "canon_b": str(W.canon0[n2])[:400]})

    def do_eq(a, b):
        oa, ob = W.objs[a], W.objs[b]
        want = model_eq(W.canon0[a], W.canon0[b])
        try:
            got = bool(oa == ob)
            gne = bool(oa != ob)
        except InjectedInterrupt:
            raise
        except Exception as e:  # noqa: BLE001
            if type(oa) is type(ob) and _fieldwise_undefined(oa, ob, type(e)):
                # the field values themselves cannot be compared (numpy scalar == () raises):
                # "pairwise-equal fields" is undefined for this pair
                probe("undefined_field_comparisons")
                return None
            viol("C01/eq-raised", {"a": a, "b": b, "exc": type(e).__name__,
                                   "canon_a": str(W.canon0[a])[:400],
                                   "canon_b": str(W.canon0[b])[:400]})
            return None
        if got != want:
            viol("C01/eq-mismatch", {"a": a, "b": b, "got": got, "want": want,
                                     "canon_a": str(W.canon0[a])[:400],
                                     "canon_b": str(W.canon0[b])[:400]})
        if gne == got:
            viol("C01/ne-mismatch", {"a": a, "b": b})
        return got

    def check_unchanged(name):
        if name in W.dead:
            return
        c = canon(W.objs[name])
        if jkey(c) != jkey(W.canon0[name]):
            viol("C01/mutated", {"obj": name, "before": str(W.canon0[name])[:400],
                                 "after": str(c)[:400]})

    def sweep():
        names = live()
        for a in names:
            check_unchanged(a)
        for a in names:
            h = do_hash(a)
            check_hash_pairs(a, h)
        ntw = nnear = ntyped = 0
        for a in names:
            for b in names:
                got = do_eq(a, b)
                if violation is not None:
                    return
                if a < b and got:
                    ntw += 1
                    if util.typed_differs(W.canon0[a], W.canon0[b]):
                        ntyped += 1
                elif a < b:
                    nnear += 1
        probe("twin_pairs", ntw)
        probe("near_miss_pairs", nnear)
        probe("typed_variant_pairs", ntyped)
        return ntw

    def field_names(o):
        return list(util._expr_field_names(o))

    def contains(o, target):
        if o is target:
            return True
        if isinstance(o, p.Expression):
            for f in util._expr_field_names(o):
                if contains(getattr(o, f, None), target):
                    return True
            return False
        if isinstance(o, (tuple, list)):
            return any(contains(x, target) for x in o)
        if hasattr(o, "items") and hasattr(o, "keys"):
            return any(contains(v, target) for v in o.values())
        return False

    def kill(target):
        """after a (known) successful rebind every pool object that holds the mutated
        object -- aliases and enclosing trees -- no longer has a meaningful model"""
        for n, o in W.objs.items():
            if contains(o, target):
                W.dead.add(n)

    def is_legacy_owned(o, fname):
        """field owned by a class that is not an expression dataclass"""
        import dataclasses
        if not dataclasses.is_dataclass(o):
            return True
        return fname not in {f.name for f in dataclasses.fields(o)}

    def run_op(op, results=None):
        """Execute one op; returns a small JSON-able observation."""
        nonlocal ops_after_hash
        k = op[0]
        if k == "def":
            o = B.define(op[1], op[2])
            if not isinstance(o, p.Expression):
                o = p.Variable("_nonexpr")
                B.defs[op[1]] = (op[2], o)
            register(op[1], o)
            nt = normalise_term(op[2])
            if nt != op[2]:
                # deprecated constructor spellings must give the documented normal form
                probe("deprecated_spellings")
                twin = B.build(nt)
                if jkey(canon(twin)) != jkey(W.canon0[op[1]]):
                    viol("C01/normalisation", {"term": op[2],
                                               "got": str(W.canon0[op[1]])[:400],
                                               "want": str(canon(twin))[:400]})
            return ["def"]
        tgt = op[1] if len(op) > 1 and isinstance(op[1], str) else None
        if k in ("lookup", "map"):
            tgt = op[2]
        if tgt is not None and (tgt not in W.objs or tgt in W.dead):
            return ["skip"]
        if tgt is not None and is_hashed(W.objs[tgt]):
            ops_after_hash += 1
        if k == "hash":
            h = do_hash(tgt)
            check_hash_pairs(tgt, h)
            return ["hash"]
        if k == "eq":
            if op[2] not in W.objs or op[2] in W.dead:
                return ["skip"]
            return ["eq", do_eq(op[1], op[2])]
        if k == "eqforeign":
            o = W.objs[tgt]
            other = B.build(op[2])
            try:
                r1, r2 = bool(o == other), bool(o != other)
                r3, r4 = bool(other == o), bool(other != o)      # reflected
            except InjectedInterrupt:
                raise
            except Exception as e:  # noqa: BLE001
                viol("C01/eq-raised", {"a": tgt, "foreign": op[2], "exc": type(e).__name__})
                return ["eqforeign"]
            if r1 or not r2 or r3 or not r4:
                viol("C01/eq-mismatch", {"a": tgt, "foreign": op[2], "got": [r1, r2, r3, r4],
                                         "want": [False, True, False, True]})
            return ["eqforeign", r1]
        if k == "lookup":
            _, ckind, key, pt = op
            ko = W.objs[key]
            probe_obj = B.build(pt)
            if not isinstance(probe_obj, p.Expression):
                return ["skip"]
            want = model_eq(canon(probe_obj), W.canon0[key])
            try:
                if ckind == "dict":
                    cont = {ko: 1}
                elif ckind == "set":
                    cont = {ko}
                else:
                    cont = frozenset([ko])
                got = probe_obj in cont
            except (InjectedInterrupt, RecursionError):
                raise
            except Exception as e:  # noqa: BLE001
                if type(probe_obj) is type(ko) and _fieldwise_undefined(probe_obj, ko, type(e)):
                    probe("undefined_field_comparisons")
                    return ["lookup", None]
                viol("C01/hash-raised", {"obj": key, "exc": f"{type(e).__name__}: {e}"[:200],
                                         "canon": str(W.canon0[key])[:400]})
                return ["lookup", None]
            if got != want:
                viol("C01/lookup-miss" if want else "C01/lookup-false-hit",
                     {"key": key, "probe": pt, "container": ckind,
                      "canon_key": str(W.canon0[key])[:400]})
            probe("lookup_hits" if want else "lookup_misses")
            return ["lookup", got]
        if k in ("copy", "deepcopy", "pickle", "map"):
            o = W.objs[tgt]
            src = tgt
            hashed_before = is_hashed(o)
            if k == "copy":
                n2 = copy.copy(o)
            elif k == "deepcopy":
                n2 = copy.deepcopy(o)
            elif k == "pickle":
                try:
                    n2 = pickle.loads(pickle.dumps(o, protocol=op[2]))
                except pickle.PicklingError:
                    # two classes under one qualified name: pickle itself refuses
                    return ["pickle-refused"]
            else:
                return run_map(op[1], src, o)
            probe("copies_after_hash" if hashed_before else "copies_before_hash")
            c2 = canon(n2)
            if jkey(c2) != jkey(W.canon0[src]):
                viol("C01/copy-differs", {"op": k, "src": src,
                                          "src_canon": str(W.canon0[src])[:400],
                                          "copy_canon": str(c2)[:400]})
            W.copy_ctr += 1
            name2 = f"{src}_{k[0]}{W.copy_ctr}"
            register(name2, n2)
            # the copy must behave like its source right away
            do_eq(name2, src)
            h = do_hash(name2)
            check_hash_pairs(name2, h)
            if src in W.first_hash and W.first_hash[src] != h:
                viol("C01/hash-unequal-for-equal", {"a": src, "b": name2, "via": k})
            return [k]
        if k in ("rebind", "delete", "addattr"):
            o = W.objs[tgt]
            fns = field_names(o)
            probe("rebind_attempts")
            if k == "addattr":
                try:
                    o.zz_extra_attr = 1
                    raised = False
                except (AttributeError, TypeError):
                    raised = True
                import dataclasses
                strict_cls = "_is_expr_dataclass" in type(o).__dict__
                if not raised and strict_cls:
                    viol("C01/rebind-succeeded", {"op": k, "obj": tgt, "class": type(o).__name__})
                check_unchanged(tgt)
                return [k, raised]
            if not fns:
                return ["skip"]
            fname = fns[op[2] % len(fns)]
            newv = B.build(op[3])
            try:
                if k == "rebind":
                    setattr(o, fname, newv)
                else:
                    delattr(o, fname)
                raised = False
            except (AttributeError, TypeError):
                raised = True
            if not raised:
                what = ("fields owned by a non-dataclass (legacy) class are not frozen: "
                        "rebinding succeeds and leaves a stale cached hash (D4)")
                if is_legacy_owned(o, fname) and kf("legacy-field-not-frozen", what):
                    kill(o)
                else:
                    viol("C01/rebind-succeeded", {"op": k, "obj": tgt, "field": fname,
                                                  "class": type(o).__name__})
                    kill(o)
            else:
                check_unchanged(tgt)
            return [k, raised]
        if k == "copyrebind":
            o = W.objs[tgt]
            how = op[2]
            try:
                n2 = (copy.copy(o) if how == "copy" else copy.deepcopy(o) if how == "deepcopy"
                      else pickle.loads(pickle.dumps(o)))
            except pickle.PicklingError:
                return ["skip"]
            fns = field_names(n2)
            if not fns:
                return ["skip"]
            fname = fns[op[3] % len(fns)]
            try:
                setattr(n2, fname, B.build(op[4]))
                done = True
            except (AttributeError, TypeError):
                done = False
            if done:
                probe("fields_rebound_on_copies")
                # whether the rebinding itself should have been refused is the business of the
                # rebind op; here: the object the copy was taken from is what it was
                check_unchanged(tgt)
                if violation is not None:
                    violation["detail"]["after"] = f"{how}, then rebinding {fname} on the copy"
            return ["copyrebind", done]
        if k == "retarget":
            o = W.objs[tgt]
            cls = type(o)
            if cls.__name__ in uc_kind:
                try:
                    cls.mapper_method = "map_retargeted_" + cls.__name__.lower()
                    probe("classes_retargeted")
                except (AttributeError, TypeError):
                    pass
            return ["retarget"]
        if k == "sweep":
            sweep()
            return ["sweep"]
        return ["skip"]

    def run_map(kind, src, o):
        from pymbolic.mapper import IdentityMapper
        res = None
        try:
            if kind == "get_hash":
                o.get_hash()            # the legacy hash backend is public API
            elif kind == "is_equal":
                o.is_equal(o)
            elif kind == "identity":
                res = IdentityMapper()(o)
            elif kind == "force":
                class Force(IdentityMapper):
                    def map_variable(self, expr, *a, **kw):
                        return type(expr)(expr.name) if type(expr) is p.Variable else expr

                    def map_constant(self, expr, *a, **kw):
                        return expr
                res = Force()(o)
            elif kind == "dependency":
                from pymbolic.mapper.dependency import DependencyMapper
                DependencyMapper()(o)
            elif kind == "str":
                str(o)
            elif kind == "repr":
                repr(o)
            elif kind == "evaluate":
                from pymbolic.mapper.evaluator import EvaluationMapper
                EvaluationMapper({"x": 2, "y": 3, "z": 5})(o)
            elif kind == "substitute":
                from pymbolic.mapper.substitutor import substitute
                res = substitute(o, {"x": p.Variable("x")})
            elif kind == "flatten":
                from pymbolic.mapper.flattener import flatten
                flatten(o)
            elif kind == "wrap_in_cse":
                p.wrap_in_cse(o, "nm")
                p.wrap_in_cse(o)
            elif kind == "make_cse":
                p.make_common_subexpression(o, "nm", p.cse_scope.EXPRESSION)
                p.make_common_subexpression(o, "nm")
            elif kind == "operators":
                (o + 1, 2 * o, o - o, -o, o / 3, o ** 2, o[0], o(1, k=2), o.attr("a"),
                 o.eq(o), o.not_(), abs(o))
            elif kind == "inplace_operators":
                # augmented assignment on another reference to the same node
                for stmt in ("t += 1", "t += o", "t -= 2", "t *= 3", "t *= o", "t /= 2",
                             "t //= 2", "t %= 5", "t **= 2", "t <<= 1", "t >>= 1", "t |= 1",
                             "t &= 3", "t ^= 1"):
                    ns = {"t": o, "o": o}
                    try:
                        exec(stmt, ns)
                    except Exception:  # noqa: BLE001
                        pass
            elif kind == "flattened":
                p.flattened_sum([o, o + 1, 0])
                p.flattened_product([o, 1, o * 2])
                p.quotient(o, 3)
            elif kind == "tag_cse":
                from pymbolic.cse import tag_common_subexpressions
                tag_common_subexpressions([o + o, o * 2, o])
            elif kind == "persistent_hash":
                import hashlib
                from pymbolic.mapper.persistent_hash import PersistentHashWalkMapper
                PersistentHashWalkMapper(hashlib.sha256())(o)
            elif kind == "nodecount":
                from pymbolic.mapper.analysis import get_num_nodes
                get_num_nodes(o)
        except InjectedInterrupt:
            raise
        except RecursionError:
            raise
        except Exception:  # noqa: BLE001
            res = None      # unsupported node for that mapper etc.: not C01's business
        check_unchanged(src)
        # what a mapper returns is the mapper's business (IdentityMapper folds CSE(0) to 0,
        # substitution replaces nodes); C01 only says the *source* is left as it was
        return ["map", kind]

    def state_sig():
        names = live()
        hs = [n for n in names if is_hashed(W.objs[n])]
        return util.digest_of([sorted(names), hs])[:10]

    try:
        for opi, op in enumerate(scenario["ops"]):
            if violation is not None:
                break
            steps += 1
            if op[0] == "async":
                _, nth, inner = op
                sys.settrace(_async_tracer(nth))
                try:
                    ob = run_op(inner)
                except InjectedInterrupt:
                    ob = ["interrupted"]
                    faults["async_interrupt"] = faults.get("async_interrupt", 0) + 1
                finally:
                    sys.settrace(None)
                tgt = inner[1] if len(inner) > 1 and isinstance(inner[1], str) else None
                if tgt in W.objs:
                    check_unchanged(tgt)
            elif op[0] == "stack":
                _, extra, inner = op
                depth = 0
                fr = sys._getframe()
                while fr is not None:
                    depth += 1
                    fr = fr.f_back
                old_limit = sys.getrecursionlimit()
                sys.setrecursionlimit(depth + 6 + extra)
                try:
                    ob = run_op(inner)
                except RecursionError:
                    ob = ["recursion"]
                    faults["stack_exhaustion"] = faults.get("stack_exhaustion", 0) + 1
                finally:
                    sys.setrecursionlimit(old_limit)
                tgt = inner[1] if isinstance(inner[1], str) and inner[0] != "lookup" else inner[2]
                if tgt in W.objs:
                    check_unchanged(tgt)
            elif op[0] == "threads":
                from .sched import run_threads
                ob = run_threads(op, W, run_op, viol, probes, faults, states)
                steps += ob[1] if isinstance(ob, list) and len(ob) > 1 else 0
            else:
                ob = run_op(op)
            if op[0] in ("rebind", "delete") and ob and ob[0] == op[0]:
                faults[op[0]] = faults.get(op[0], 0) + 1
            events.append([opi, op[0], ob])
            states.add(state_sig())
    finally:
        sys.settrace(None)
    probe("ops_after_first_hash", ops_after_hash)
    nontrivial = ops_after_hash > 0 and probes.get("twin_pairs", 0) > 0
    return {"events": events, "violation": violation, "known": known, "probes": probes,
            "faults": faults, "nontrivial": nontrivial, "steps": steps,
            "states": sorted(states)[:64]}

# }}}


def simplifications(scn):
    ops = scn["ops"]
    cfg = scn["config"]
    for i, op in enumerate(ops):
        if op[0] == "def":
            for s in spec.subterms(op[2]):
                if spec.is_expr_term(s):
                    yield {"config": cfg, "ops": ops[:i] + [["def", op[1], s]] + ops[i + 1:]}
            if op[2][0] == "n":
                for j, f in enumerate(op[2][2]):
                    for s in spec.subterms(f):
                        if f[0] == "t" and len(f[1]) > 1:
                            nf = ["t", [x for x in f[1] if x is not s]]
                            nt = ["n", op[2][1], op[2][2][:j] + [nf] + op[2][2][j + 1:]]
                            yield {"config": cfg, "ops": ops[:i] + [["def", op[1], nt]] + ops[i + 1:]}
        elif op[0] in ("async", "stack"):
            yield {"config": cfg, "ops": ops[:i] + [op[2]] + ops[i + 1:]}
        elif op[0] == "threads":
            _, scripts, schedule, knobs = op
            for j in range(len(schedule)):
                yield {"config": cfg, "ops": ops[:i] + [["threads", scripts,
                                                         schedule[:j] + schedule[j + 1:], knobs]]
                       + ops[i + 1:]}
            for t in range(len(scripts)):
                for j in range(len(scripts[t])):
                    ns = [list(s) for s in scripts]
                    del ns[t][j]
                    yield {"config": cfg, "ops": ops[:i] + [["threads", ns, schedule, knobs]]
                           + ops[i + 1:]}
            if knobs.get("interrupt"):
                nk = dict(knobs)
                nk["interrupt"] = None
                yield {"config": cfg, "ops": ops[:i] + [["threads", scripts, schedule, nk]]
                       + ops[i + 1:]}
    if cfg.get("user_classes"):
        ucs = cfg["user_classes"]
        for j in range(len(ucs)):
            nc = dict(cfg)
            nc["user_classes"] = ucs[:j] + ucs[j + 1:]
            yield {"config": nc, "ops": ops}
