"""C14 -- generated C code and hoisted common-subexpression assignments.

System under simulation: a lineage of CCodeMapper instances (root, copy(),
copy_with_mapped_cses()) plus the generic CSESplittingStringifyMapperMixin, fed a seeded
history of expressions.  Oracles: NameTableModel after every op; at the end the
accumulated assignments + emitted expressions are compiled by gcc (one translation unit
per batch of runs) and run against the evaluator.  See DESIGN.md section 3/C14.
"""
from __future__ import annotations

import math
import os
import random
import re
import shutil
import subprocess
import tempfile

from . import spec, util
from .util import canon, jkey

ID = "C14"
RULE = ("a run = one mapper lineage (1 root + 0-4 copies / copies with mapped CSEs, C code "
        "mapper or the generic CSE-splitting stringifier) fed 3-25 expressions of the integer "
        "or floating C-expressible fragment with wrappers at random depth, shared and equal "
        "wrappers, repeated and colliding prefixes; non-trivial = at least 2 hoisted "
        "assignments and at least one copy or one wrapper re-used across calls; distinct = "
        "distinct event-log digests among non-trivial runs")
STATE_MEASURE = "digest of every live mapper's (name, text) assignment list after each op"
REAL = ["pymbolic.mapper.c_code.CCodeMapper and the stringifier classes it inherits",
        "pymbolic.mapper.stringifier.CSESplittingStringifyMapperMixin",
        "pymbolic EvaluationMapper (value reference)", "gcc -O0 -fwrapv and libm",
        "g++ -O0 and libstdc++ <complex> for programs with complex constants"]
STUBS = ["a user node class the mapper cannot print (unsupported_node fault)",
         "the C harness around the emitted text (declarations, printf)"]
ASSUMPTIONS = [
    "only the fragment described in DESIGN.md is generated: no "
    "bool constants, bitwise operators and shifts in integer programs only (a shift of a "
    "negative value or by more than 30 is not compared), integer programs use long long with non-negative operands "
    "for // and %, floating programs use double and float constants only; complex constants "
    "(printed as std::complex<double>, which is C++) get programs of their own, compiled with "
    "g++: double variables, float and complex constants, no integer constant next to a complex "
    "value, no conditionals",
    "constants of the narrow numpy integer types: a program is compared only if the stock "
    "evaluator, with numpy's overflow signalling set to raise, returns the value that exact "
    "integer arithmetic gives (numpy wraps within int8/int16 where C computes in long long)",
    "programs whose reference evaluation leaves the safe range, divides by zero, has a "
    "negative // or % operand, or is ill-conditioned (value moves > 1e-9 relative when "
    "inputs move 1e-13) are compiled but their values are not compared; they are counted",
    "wrappers whose children are == but differ in a nested constant's type are not generated",
]
# a share of every batch runs under python -O (asserts stripped)
BATCHES = [{"share": 0.85}, {"share": 0.15, "pyflags": ["-O"], "tier_suffix": "-O"}]
EXPECTED_PROBES = ["copies_after_assignment", "repeated_prefix", "wrapper_reused_across_calls",
                   "wrapper_first_seen_in_copy_then_parent", "nested_wrappers",
                   "unsupported_node_faults", "int_values_compared", "float_values_compared",
                   "mapped_cse_copies", "prefix_collides_with_generated_name",
                   "mixed_emissions", "complex_values_compared"]

BUILD_DIR = os.path.join(os.path.dirname(os.path.dirname(os.path.abspath(__file__))), "build")

INT_VARS = ["a", "b", "c", "d"]
FLT_VARS = ["x", "y", "z"]

# {{{ generation


class _FragGen:
    def __init__(self, r, kind, pool, max_depth):
        self.r, self.kind, self.pool, self.max_depth = r, kind, pool, max_depth

    def var(self):
        return ["n", "Variable", [["s", self.r.choice(
            FLT_VARS if self.kind in ("float", "cplx") else INT_VARS)]]]

    def real_expr(self):
        """(cplx kind) a small expression that is real whatever the pool holds"""
        r = self.r

        def leaf():
            return self.var() if r.random() < 0.6 else ["f", repr(r.choice([0.5, 1.5, 2.0, -0.75]))]
        if r.random() < 0.5:
            return leaf()
        return ["n", r.choice(["Sum", "Product"]), [["t", [leaf(), leaf()]]]]

    cfloat = False

    def cplxf_expr(self, d):
        """(cplx kind, complex_constant_base_type="float") complex<float> variables and complex
        constants only: C++ has no complex<float> op double, and every real literal the mapper
        prints is a double"""
        r = self.r
        e = self.expr
        o = r.choice(["sum", "prod", "sub", "pow", "quot", "gpow", "call"])
        if o == "sum":
            return ["n", "Sum", [["t", [e(d + 1) for _ in range(r.randint(2, 3))]]]]
        if o == "prod":
            return ["n", "Product", [["t", [e(d + 1) for _ in range(r.randint(2, 3))]]]]
        if o == "sub":
            neg = ["n", "Product", [["t", [["i", -1], e(d + 1)]]]]
            items = [e(d + 1), neg]
            r.shuffle(items)
            return ["n", "Sum", [["t", items]]]
        if o == "pow":
            return ["n", "Power", [e(d + 1), ["i", r.choice([1, 2, 2])]]]
        if o == "quot":
            return ["n", "Quotient", [e(d + 1), e(d + 1)]]
        if o == "gpow":
            return ["n", "Power", [e(d + 1), ["i", 3]]]
        return ["n", "Call", [["n", "Variable", [["s", r.choice(["sin", "cos", "exp"])]]],
                              ["t", [e(d + 1)]]]]

    def cplx_expr(self, d):
        """(cplx kind) double variables, float and complex constants; no integer constant
        meets a complex value (C++ has no complex<double> op int), no conditionals"""
        r = self.r
        e = self.expr
        o = r.choice(["sum", "prod", "sub", "pow", "neg", "quot", "quot", "gpow", "gpow", "call"])
        if o == "sum":
            return ["n", "Sum", [["t", [e(d + 1) for _ in range(r.randint(2, 3))]]]]
        if o == "prod":
            return ["n", "Product", [["t", [e(d + 1) for _ in range(r.randint(2, 3))]]]]
        if o == "sub":
            neg = ["n", "Product", [["t", [["i", -1]] + [e(d + 1) for _ in range(r.randint(1, 2))]]]]
            items = [e(d + 1), neg] + ([e(d + 1)] if r.random() < 0.3 else [])
            r.shuffle(items)
            return ["n", "Sum", [["t", items]]]
        if o == "neg":
            return ["n", "Product", [["t", [["f", "-1.0"], e(d + 1)]]]]
        if o == "pow":
            return ["n", "Power", [e(d + 1), ["i", r.choice([1, 2, 2])]]]
        if o == "quot":
            return ["n", "Quotient", [e(d + 1), e(d + 1)]]
        if o == "gpow":
            if r.random() < 0.5:
                # a complex constant as the base: its imaginary part decides the branch
                base = ["c", repr(r.choice([-4.0, -1.0, 2.0, -0.25, 0.5])),
                        repr(r.choice([0.0, 0.0, 0.0, 1.0, -2.0]))]
                return ["n", "Power", [base, r.choice([["f", "0.5"], ["f", "1.5"], ["i", 3],
                                                       ["f", "-1.0"], ["f", "0.25"]])]]
            base = ["n", "Sum", [["t", [["n", "Call", [["n", "Variable", [["s", "fabs"]]],
                                                       ["t", [self.real_expr()]]]], ["f", "0.5"]]]]]
            return ["n", "Power", [base, r.choice([["f", "0.5"], ["f", "1.5"], ["i", 3],
                                                   ["f", "-1.0"], e(d + 1)])]]
        return ["n", "Call", [["n", "Variable", [["s", r.choice(["sin", "cos", "exp"])]]],
                              ["t", [e(d + 1)]]]]

    def const(self):
        r = self.r
        if self.kind == "cplx":
            if r.random() < 0.3 or self.cfloat:
                return ["c", repr(r.choice([-4.0, -1.0, 0.5, 2.0, -0.75])),
                        repr(r.choice([0.0, 0.0, 1.0, -2.0, 0.5]))]
            return ["f", repr(r.choice([0.5, 1.5, 2.0, 3.25, -1.0, -0.75, 4.0, 0.125]))]
        if r.random() < 0.06 and self.kind in ("int", "float"):
            # numpy scalars are constants as well
            if self.kind == "int":
                if r.random() < 0.4:
                    # the ends of the narrow integer types (negating the lower end overflows
                    # within the type)
                    return r.choice([["np", "int8", "-128"], ["np", "int8", "127"],
                                     ["np", "int16", "-32768"], ["np", "int16", "32767"],
                                     ["np", "uint8", "255"]])
                    # (no int32 extreme: C adds integer literals in 32-bit int, and next to
                    # -2147483647 any other order of the same sum overflows)
                return ["np", "int64", repr(r.choice([1, 2, 3, 6, -2]))]
            if r.random() < 0.4:
                # single / half precision scalars, powers of two only (exact in any precision)
                return ["np", r.choice(["float32", "float16"]), repr(r.choice([2.0, 0.5, 4.0]))]
            return ["np", "float64", repr(r.choice([0.5, 1.5, 2.0, -0.75, 3.25]))]
        if self.kind == "int":
            return ["i", r.choice([0, 1, 2, 3, 4, 5, 7, 9, -1, -2, -3])]
        if self.kind == "mixed":
            # integer variables with float constants: every float constant is dyadic and every
            # division is by a power of two, so all arithmetic is exact in binary floating
            # point and C's promotion rules are the only thing that matters
            if r.random() < 0.08:
                return ["np", r.choice(["float32", "float64"]), repr(r.choice([2.0, 0.5, 4.0]))]
            if r.random() < 0.5:
                return ["i", r.choice([0, 1, 2, 3, 4, 5, -1, -2])]
            return ["f", repr(r.choice([0.5, 1.0, 1.5, 2.0, 4.0, -1.0, 0.25, 3.0]))]
        return ["f", repr(r.choice([0.5, 1.5, 2.0, 3.25, -1.0, -0.75, 4.0, 10.0, 0.125]))]

    def cond(self, d):
        r = self.r
        x = r.random()
        if d < self.max_depth and r.random() < 0.12:
            # any value can stand where a condition is expected: a ternary, an arithmetic
            # expression (C and the evaluator agree on truthiness)
            if r.random() < 0.6:
                return ["n", "If", [self.cond(d + 1), self.expr(d + 1), self.expr(d + 1)]]
            return self.expr(d + 1)
        if self.kind == "int" and r.random() < 0.12:
            # a division guarded by a short-circuiting test of its divisor: C and the evaluator
            # both stop at the guard when the divisor is zero
            v = self.var()
            div = ["n", r.choice(["Remainder", "FloorDiv"]), [self.expr(d + 1), v]]
            test = ["n", "Comparison", [div, ["s", r.choice(spec.OPS)], self.expr(d + 1)]]
            if r.random() < 0.5:
                guard = ["n", "Comparison", [v, ["s", r.choice(["!=", ">"])], ["i", 0]]]
                return ["n", "LogicalAnd", [["t", [guard, test]]]]
            guard = ["n", "Comparison", [v, ["s", r.choice(["==", "<="])], ["i", 0]]]
            return ["n", "LogicalOr", [["t", [guard, test]]]]
        if d >= self.max_depth or x < 0.6:
            return ["n", "Comparison", [self.expr(d + 1), ["s", r.choice(spec.OPS)],
                                        self.expr(d + 1)]]
        if x < 0.75:
            return ["n", "LogicalAnd", [["t", [self.cond(d + 1), self.cond(d + 1)]]]]
        if x < 0.9:
            return ["n", "LogicalOr", [["t", [self.cond(d + 1), self.cond(d + 1)]]]]
        return ["n", "LogicalNot", [self.cond(d + 1)]]

    weird_prefixes = False
    subclasses = False
    bitwise = False
    numbered_prefixes = False
    one_prefix = False

    def wrap(self, t):
        r = self.r
        px = r.choice([["none"], ["none"], ["s", "u"], ["s", "u"], ["s", "v"], ["s", "u_2"],
                       ["s", "0"], ["s", "tmp"]])
        if self.numbered_prefixes and r.random() < 0.5:
            # names that look like the mapper's own numbering, with tails of different length
            px = ["s", r.choice(["u", "u", "u_9", "u_10", "u_2"])]
        if self.one_prefix:
            px = ["s", "t"]
        if self.weird_prefixes and r.random() < 0.5:
            # prefixes that are not identifiers: such a lineage is held to the name-table
            # invariants only, its program is not compiled
            px = ["s", r.choice(["g.x", "g_x", "g-x", "a b", "a_b"])]
        sc = r.choice(["pymbolic_eval", "pymbolic_eval", "pymbolic_expr", "pymbolic_global"])
        return ["n", "CommonSubexpression", [t, px, ["s", sc]]]

    def expr(self, d=0):
        r = self.r
        if self.pool and r.random() < 0.22:
            nm = r.choice(self.pool)
            return ["r", nm] if r.random() < 0.7 else ["fresh", nm]
        if d >= self.max_depth or (d > 0 and r.random() < 0.25):
            return self.var() if r.random() < 0.6 else self.const()
        if r.random() < 0.18:
            return self.wrap(self.expr(d + 1))
        k = self.kind
        if k == "cplx":
            return self.cplxf_expr(d) if self.cfloat else self.cplx_expr(d)
        ops = ["sum", "prod", "sub", "pow", "pow", "if", "neg", "ind"]
        if k == "float":
            ops.append("cpow")        # (pow() is a double: no good under %, // or & of int programs)
        if k == "int":
            ops += ["fdiv", "rem", "fdiv", "rem", "min", "max", "cmp"]
            if self.bitwise:
                ops += ["band", "bor", "bxor", "bnot", "shl", "shr"]
        elif k == "mixed":
            ops += ["fdiv", "rem", "min", "max", "cmp", "quotp2", "quotp2", "quoti"]
        else:
            ops += ["quot", "quot", "gpow", "call", "call"]
        o = r.choice(ops)
        e = self.expr
        if o == "ind":
            return self.indicator(d)
        if o == "cpow":
            # a constant base under an exponent only known at run time (0**0 is 1, in C too)
            v = self.var()
            expo = r.choice([v, v, ["n", "Sum", [["t", [v, ["n", "Product", [["t", [["i", -1], v]]]]]]]]])
            return ["n", "Power", [["f", r.choice(["0.0", "0.0", "1.0", "2.0"])], expo]]
        if o in ("band", "bor", "bxor"):
            cls = {"band": "BitwiseAnd", "bor": "BitwiseOr", "bxor": "BitwiseXor"}[o]
            return ["n", cls, [["t", [e(d + 1) for _ in range(r.randint(2, 3))]]]]
        if o == "bnot":
            return ["n", "BitwiseNot", [e(d + 1)]]
        if o in ("shl", "shr"):
            return ["n", "LeftShift" if o == "shl" else "RightShift",
                    [e(d + 1), r.choice([["i", r.choice([0, 1, 2, 3])], self.var()])]]
        if o == "sum":
            kids = [e(d + 1) for _ in range(r.randint(2, 3))]
            if k == "int" and r.random() < 0.05:
                kids.insert(r.randrange(len(kids) + 1),
                            r.choice([["np", "int8", "-128"], ["np", "int16", "-32768"],
                                      ["np", "int8", "127"]]))
            return ["n", "Sum", [["t", kids]]]
        if o == "prod" and self.subclasses and r.random() < 0.25:
            return ["n", "SubProd", [["t", [e(d + 1) for _ in range(r.randint(2, 3))]]]]
        if o == "prod":
            fs = [e(d + 1) for _ in range(r.randint(2, 3))]
            if r.random() < 0.15:
                # a short-cut power of a division-like node as a factor
                if k == "float":
                    inner = ["n", "Quotient", [e(d + 1), e(d + 1)]]
                else:
                    saved, self.kind = self.kind, "int"
                    try:
                        inner = ["n", r.choice(["Remainder", "FloorDiv"]),
                                 [e(d + 1), self.divisor(d + 1)]]
                    finally:
                        self.kind = saved
                fs[r.randrange(len(fs))] = ["n", "Power", [inner, ["i", r.choice([1, 1, 2])]]]
            return ["n", "Product", [["t", fs]]]
        if o == "sub":
            neg = ["n", "Product", [["t", [["i", -1] if k == "int" else r.choice(
                [["i", -1], ["f", "-1.0"]])] + [e(d + 1) for _ in range(r.randint(1, 2))]]]]
            if k == "int" and r.random() < 0.2:
                # other leading coefficients: negative ones that are not -1, the ends of the
                # narrow integer types (times something small, so that numpy's own arithmetic
                # stays exact)
                lead = r.choice([["i", -3], ["i", -2], ["np", "int8", "-128"],
                                 ["np", "int16", "-32768"], ["np", "uint8", "255"],
                                 ["np", "int8", "-1"]])
                small = r.choice([["i", 1], self.var(), self.indicator(d)])
                neg = ["n", "Product", [["t", [lead, small]]]]
            if k == "mixed" and r.random() < 0.2:
                # both kinds of minus one in one product, in either order
                fs = [["f", "-1.0"], ["i", -1], e(d + 1)]
                r.shuffle(fs)
                neg = ["n", "Product", [["t", fs]]]
            items = [e(d + 1), neg]
            if r.random() < 0.3:
                items.append(e(d + 1))
            if r.random() < 0.2:
                items = [neg, ["n", "Product", [["t", [["i", -1], e(d + 1)]]]]]
            r.shuffle(items)
            return ["n", "Sum", [["t", items]]]
        if o == "neg":
            return ["n", "Product", [["t", [["i", -1], e(d + 1)]]]]
        if o == "pow":
            return ["n", "Power", [e(d + 1), ["i", r.choice([0, 1, 2, 2])]]]
        if o == "gpow" and r.random() < 0.15:
            # (negative finite values make the evaluator go complex: not compared; -inf does not)
            return ["n", "Power", [self.var(), ["f", "0.5"]]]
        if o == "gpow":
            base = ["n", "Sum", [["t", [["n", "Call", [["n", "Variable", [["s", "fabs"]]],
                                                       ["t", [e(d + 1)]]]], ["f", "0.5"]]]]]
            return ["n", "Power", [base, r.choice([["f", "0.5"], ["f", "1.5"], ["i", 3],
                                                   ["f", "-1.0"], e(d + 1)])]]
        if o == "if":
            return ["n", "If", [self.cond(d + 1), e(d + 1), e(d + 1)]]
        if o == "quoti":
            # an integer divisor under a numerator that is floating only by promotion
            how = r.random()
            if how < 0.5:
                fs = [["f", "-1.0"], e(d + 1)]
                if r.random() < 0.3:
                    fs.append(["i", -1])          # ... and an integer minus one behind it
                num = ["n", "Sum", [["t", [e(d + 1), ["n", "Product", [["t", fs]]]]]]]
            elif how < 0.58:
                # a ternary whose condition is a literal: its type is still that of both branches
                branches = [e(d + 1), ["f", r.choice(["2.5", "0.5", "1.0"])]]
                r.shuffle(branches)
                num = ["n", "If", [["i", r.choice([0, 1])]] + branches]
            elif how < 0.65:
                # indicators: floating only through the literals 1.0 / 0.0 in their branches
                num = self.indicator(d) if r.random() < 0.5 else \
                    ["n", "Sum", [["t", [self.indicator(d), self.indicator(d)]]]]
            elif how < 0.8:
                num = ["n", "Product", [["t", [["f", r.choice(["1.0", "0.5", "2.0"])], e(d + 1)]]]]
            else:
                num = ["n", "Sum", [["t", [e(d + 1), ["f", r.choice(["0.5", "1.0"])]]]]]
            return ["n", "Quotient", [num, ["i", r.choice([2, 4, 8])]]]
        if o == "quotp2":
            den = ["f", repr(r.choice([2.0, 4.0, 0.5, 0.25]))]
            if r.random() < 0.2:
                den = ["np", r.choice(["float32", "float16", "float64"]),
                       repr(r.choice([2.0, 4.0, 0.5]))]
            return ["n", "Quotient", [e(d + 1), den]]
        if o in ("fdiv", "rem") and k == "mixed":
            # // and % are for integer operands only: generate them in the integer sub-grammar
            self.kind = "int"
            try:
                a, b = e(d + 1), self.divisor(d + 1)
            finally:
                self.kind = "mixed"
            return ["n", "FloorDiv" if o == "fdiv" else "Remainder", [a, b]]
        if o == "fdiv":
            return ["n", "FloorDiv", [e(d + 1), self.divisor(d + 1)]]
        if o == "rem":
            return ["n", "SubRem" if self.subclasses and r.random() < 0.4 else "Remainder",
                    [e(d + 1), self.divisor(d + 1)]]
        if o == "quot":
            return ["n", "SubQuot" if self.subclasses and r.random() < 0.4 else "Quotient",
                    [e(d + 1), e(d + 1)]]
        if o in ("min", "max"):
            return ["n", "Min" if o == "min" else "Max", [["t", [e(d + 1), e(d + 1)]]]]
        if o == "cmp":
            return self.cond(d + 1)
        if o == "call":
            return ["n", "Call", [["n", "Variable", [["s", r.choice(["sin", "cos", "exp", "fabs"])]]],
                                  ["t", [e(d + 1)]]]]
        raise AssertionError(o)

    def indicator(self, d):
        """1 where a condition holds, 0 elsewhere -- with int or float literals"""
        r = self.r
        pairs = {"int": [(["i", 1], ["i", 0])], "float": [(["f", "1.0"], ["f", "0.0"])],
                 "mixed": [(["i", 1], ["i", 0]), (["f", "1.0"], ["f", "0.0"]),
                           (["f", "1.0"], ["f", "0.0"])]}[self.kind]
        one, zero = r.choice(pairs)
        return ["n", "If", [self.cond(d + 1), one, zero]]

    def divisor(self, d):
        r = self.r
        x = r.random()
        if x < 0.4:
            return ["i", r.choice([1, 2, 3, 5, 7])]
        if x < 0.7:
            return ["n", "Sum", [["t", [self.var(), ["i", r.choice([1, 2])]]]]]
        return self.expr(d)


def _retype_const(r, t):
    import copy
    paths = []

    def walk(x, path):
        if x[0] == "i" or (x[0] == "f" and float(x[1]) == int(float(x[1]))):
            paths.append(path)
        elif x[0] == "n":
            for j, c in enumerate(x[2]):
                walk(c, path + [2, j])
        elif x[0] == "t":
            for j, c in enumerate(x[1]):
                walk(c, path + [1, j])
    walk(t, [])
    if not paths:
        return None
    t2 = copy.deepcopy(t)
    node = t2
    path = r.choice(paths)
    if not path:
        return None
    for step in path[:-1]:
        node = node[step]
    old = node[path[-1]]
    node[path[-1]] = ["f", repr(float(old[1]))] if old[0] == "i" else ["i", int(float(old[1]))]
    return t2


def _mult_twin(r, t):
    """Copy of t in which one sum or product has one of its operands once more (the same
    operand set, another multiplicity); None if t has no sum/product."""
    import copy
    paths = []

    def walk(x, path):
        if x[0] == "n":
            if x[1] in ("Sum", "Product") and x[2] and x[2][0][0] == "t" and x[2][0][1]:
                paths.append(path)
            for j, c in enumerate(x[2]):
                walk(c, path + [2, j])
        elif x[0] == "t":
            for j, c in enumerate(x[1]):
                walk(c, path + [1, j])
    walk(t, [])
    if not paths:
        return None
    t2 = copy.deepcopy(t)
    node = t2
    for step in r.choice(paths):
        node = node[step]
    kids = node[2][0][1]
    # (not an integer constant: in the complex programs none may end up next to a complex value)
    cands = [k for k in kids if k[0] != "i"]
    if not cands:
        return None
    kids.append(copy.deepcopy(r.choice(cands)))
    return t2


def _strip_cse(t):
    if t[0] == "n":
        if t[1] == "CommonSubexpression":
            return _strip_cse(t[2][0])
        return ["n", t[1], [_strip_cse(x) for x in t[2]]]
    if t[0] == "t":
        return ["t", [_strip_cse(x) for x in t[1]]]
    return t


def generate(seed, tier):
    r = random.Random(seed)
    kind = r.choices(["int", "float", "mixed", "cplx"], weights=[10, 10, 10, 3])[0]
    mixin = r.random() < 0.12
    fault_run = r.random() < 0.2
    pool = []
    g = _FragGen(r, kind, pool, r.choice([2, 3, 3, 4]))
    g.weird_prefixes = r.random() < 0.06
    g.subclasses = r.random() < 0.3
    g.bitwise = r.random() < 0.4     # (integer programs) & | ^ ~ << >> as well
    g.cfloat = kind == "cplx" and r.random() < 0.3    # complex_constant_base_type="float"
    g.numbered_prefixes = r.random() < 0.08
    many_same_prefix = kind != "cplx" and r.random() < 0.04
    ops = []
    npool = r.randint(2, 6)
    for k in range(npool):
        t = g.expr(0)
        if r.random() < 0.45 and not (t[0] == "n" and t[1] == "CommonSubexpression"):
            t = g.wrap(t)
        ops.append(["def", f"e{k}", t])
        pool.append(f"e{k}")
    for k in range(min(2, npool)):
        # unequal twins with an equal hash (-1 <-> -2) -- also as wrapped children
        tw = spec.collide_variant(r, ops[k][2], allowed=[])
        if tw is not None and r.random() < 0.5 and kind != "cplx":
            ops.append(["def", f"e{len(pool)}", tw])
            pool.append(f"e{len(pool)}")
    for k in range(min(2, npool)):
        # the same operands with another multiplicity (x + x + y next to x + y), wrapped or not
        tw = _mult_twin(r, ops[k][2])
        if tw is not None and r.random() < 0.5:
            ops.append(["def", f"e{len(pool)}", tw])
            pool.append(f"e{len(pool)}")
    if kind == "mixed":
        # typed twins: the same tree with one constant as int resp. float (i + 1 vs i + 1.0)
        for k in range(min(2, npool)):
            tw = _retype_const(r, ops[k][2])
            if tw is not None:
                ops.append(["def", f"e{len(pool)}", tw])
                pool.append(f"e{len(pool)}")
    if kind in ("int", "mixed"):
        env = {v: ["i", 0 if r.random() < 0.15 else r.randint(0, 12)] for v in INT_VARS}
    else:
        env = {v: ["f", repr(round(r.uniform(-3, 3), 3))] for v in FLT_VARS}
        if kind == "float" and r.random() < 0.15:
            # one input is not-a-number: every ordering comparison with it is false,
            # in C as in the evaluator
            env[r.choice(FLT_VARS)] = ["f", r.choice(["nan", "nan", "inf", "-inf"])]
    prefix = r.choice(["_cse", "_cse", "_cse", "tmp_", "_c"])
    mappers = [{"m": 0, "parent": None, "kind": "mixin" if mixin else "root",
                "reverse": r.random() < 0.5, "prefix": prefix, "mapped": []}]
    if not mixin and r.random() < 0.15:
        # the caller hands the root mapper assignments it has made itself (name, code):
        # generated names must stay clear of them
        preset = []
        for nm in r.sample([f"{prefix}0", f"{prefix}1", f"{prefix}_u", f"{prefix}_tmp",
                            f"{prefix}_u_2", "mine"], r.randint(1, 2)):
            saved, g.pool = g.pool, []
            preset.append([nm, _strip_cse(g.expr(2))])
            g.pool = saved
        mappers[0]["preset"] = preset
    nops = r.randint(3, 25)
    for _ in range(nops):
        x = r.random()
        if x < 0.15 and len(mappers) < 5 and not mixin:
            par = r.choice(mappers)
            if r.random() < 0.65:
                d = {"m": len(mappers), "parent": par["m"], "kind": "copy",
                     "reverse": par["reverse"], "prefix": prefix, "mapped": []}
            else:
                mapped = []
                for j in range(r.randint(1, 2)):
                    nm = r.choice([f"{prefix}{j}", f"{prefix}_u", f"mapped{j}"])
                    if any(nm == mm[0] for mm in mapped):
                        continue
                    saved, g.pool = g.pool, []
                    mapped.append([nm, _strip_cse(g.expr(1))])
                    g.pool = saved
                d = {"m": len(mappers), "parent": par["m"], "kind": "copy_mapped",
                     "reverse": par["reverse"], "prefix": prefix, "mapped": mapped}
            mappers.append(d)
            ops.append(["copy", d])
            continue
        m = r.choice(mappers)
        y = r.random()
        if y < 0.45:
            t = ["r", r.choice(pool)]
        elif y < 0.6:
            t = ["fresh", r.choice(pool)]
        else:
            t = g.expr(0)
        fault = None
        if fault_run and r.random() < 0.2:
            fault = {"kind": "unsupported_node"}
            inner = g.wrap(g.expr(1)) if r.random() < 0.6 else g.expr(1)
            bad = ["n", "Sum", [["t", [inner, ["n", "Unsupp", [g.var()]]]]]]
            t = ["n", "Product", [["t", [g.wrap(bad), t]]]] if r.random() < 0.7 else bad
        ops.append(["emit", m, t, fault])
    if many_same_prefix:
        # more than ten distinct wrapped subexpressions under one prefix on one lineage
        g.one_prefix = True
        v0 = g.var()
        for j in range(r.randint(11, 14)):
            t = g.wrap(["n", "Sum", [["t", [v0, ["i", j + 1]]]]] if kind != "float" else
                       ["n", "Sum", [["t", [v0, ["f", repr(j + 0.5)]]]]])
            ops.append(["emit", r.choice(mappers), ["n", "Product", [["t", [t, g.var()]]]], None])
        g.one_prefix = False
    cfgd = {"kind": kind, "env": env}
    if g.cfloat:
        cfgd["cfloat"] = True
    return {"config": cfgd, "ops": ops}

# }}}


# {{{ execution

_IDENT = re.compile(r"[A-Za-z_][A-Za-z0-9_]*")


class _M:
    def __init__(self):
        self.obj = None
        self.desc = None
        self.seen = []         # canon of wrapper children visible to this mapper
        self.names = {}        # jkey(child canon) -> name first observed
        self.mapped = []       # [(name, child obj)] supplied via copy_with_mapped_cses
        self.emitted = []      # [(text, expr obj, op index)]
        self.snapshot = ()
        self.ancestors_mapped = []
        self.conflated = False
        self.preset = []       # [(name, child obj)] assignments the caller made itself


def _wrapper_children(o, acc, p, c_shortcuts=True):
    """children of all CommonSubexpression nodes in o that the mapper visits
    (pre-order, outer first)."""
    if isinstance(o, p.Expression):
        if isinstance(o, p.CommonSubexpression):
            acc.append(o.child)
        if c_shortcuts and isinstance(o, p.Power) and p.is_constant(o.exponent) \
                and p.is_zero(o.exponent):
            return      # CCodeMapper prints "1": the base is never visited, nothing is hoisted
        if c_shortcuts and isinstance(o, p.Power) and p.is_constant(o.exponent) \
                and p.is_zero(o.exponent - 2):
            # CCodeMapper prints base*base, which the operator may fold (0*x -> 0)
            _wrapper_children(o.base * o.base, acc, p, c_shortcuts)
            return
        for f in util._expr_field_names(o):
            _wrapper_children(getattr(o, f, None), acc, p, c_shortcuts)
    elif isinstance(o, tuple):
        for x in o:
            _wrapper_children(x, acc, p, c_shortcuts)


def ctype_obj(e, p, var="int"):
    """Static C type ("int" / "float") of an expression in a program whose variables all have
    C type `var`, or None if C and the evaluator would not mean the same thing (int / int is
    an integer division in C, // and % are for integers only; note that the C mapper prints
    x**0 as the int literal 1 whatever x is)."""
    import numpy as np
    if isinstance(e, (bool, int, np.integer)):
        return "int"
    if isinstance(e, (float, np.floating)):
        return "float"
    if not isinstance(e, p.Expression):
        return None
    if isinstance(e, p.Variable):
        return var
    if isinstance(e, p.CommonSubexpression) or type(e).__name__ == "Unsupp":
        return ctype_obj(e.child, p, var)
    if isinstance(e, p.Call):
        return None if None in [ctype_obj(c, p, var) for c in e.parameters] else "float"
    if isinstance(e, (p.Sum, p.Product, p.Min, p.Max)):
        ts = [ctype_obj(c, p, var) for c in e.children]
        if None in ts or not ts:
            return None
        return "float" if "float" in ts else "int"
    if isinstance(e, p.Quotient):
        a, b = ctype_obj(e.numerator, p, var), ctype_obj(e.denominator, p, var)
        if a is None or b is None or (a == "int" and b == "int"):
            return None
        return "float"
    if isinstance(e, (p.FloorDiv, p.Remainder)):
        a, b = ctype_obj(e.numerator, p, var), ctype_obj(e.denominator, p, var)
        return "int" if a == "int" and b == "int" else None
    if isinstance(e, p.Power):
        b = ctype_obj(e.base, p, var)
        if b is None:
            return None
        if isinstance(e.exponent, int) and not isinstance(e.exponent, bool) \
                and e.exponent in (0, 1, 2):
            return "int" if e.exponent == 0 else b
        if var == "float":
            return None if ctype_obj(e.exponent, p, var) is None else "float"     # pow()
        return None
    if isinstance(e, (p.BitwiseAnd, p.BitwiseOr, p.BitwiseXor)):
        return "int" if all(ctype_obj(c, p, var) == "int" for c in e.children) else None
    if isinstance(e, p.BitwiseNot):
        return "int" if ctype_obj(e.child, p, var) == "int" else None
    if isinstance(e, (p.LeftShift, p.RightShift)):
        return "int" if ctype_obj(e.shiftee, p, var) == "int" \
            and ctype_obj(e.shift, p, var) == "int" else None
    if isinstance(e, p.Comparison):
        return None if None in (ctype_obj(e.left, p, var), ctype_obj(e.right, p, var)) else "int"
    if isinstance(e, (p.LogicalAnd, p.LogicalOr)):
        return None if None in [ctype_obj(c, p, var) for c in e.children] else "int"
    if isinstance(e, p.LogicalNot):
        return None if ctype_obj(e.child, p, var) is None else "int"
    if isinstance(e, p.If):
        c, a, b = (ctype_obj(x, p, var) for x in (e.condition, e.then, e.else_))
        if None in (c, a, b):
            return None
        return "float" if "float" in (a, b) else "int"
    return None


def _make_ref_evaluator():
    from pymbolic.mapper.evaluator import EvaluationMapper

    class Ref(EvaluationMapper):
        """pymbolic's plain evaluator; additionally notes why a program's value must not be
        compared (the statement restricts // and % to non-negative operands, etc.)."""

        reverse_operands = False

        def __init__(self, ctx):
            super().__init__(ctx)
            self.bad = []

        naive = False

        def map_sum(self, expr):
            kids = expr.children[::-1] if self.reverse_operands else expr.children
            if not self.naive:
                return sum(self.rec(child) for child in kids)
            # plain left-to-right accumulation, the way the C program does it (the builtin
            # sum() compensates rounding errors since Python 3.12)
            acc = 0
            for child in kids:
                acc = acc + self.rec(child)
            return acc

        def map_product(self, expr):
            from pytools import product
            kids = expr.children[::-1] if self.reverse_operands else expr.children
            return product(self.rec(child) for child in kids)

        def __call__(self, expr, *a):
            v = EvaluationMapper.__call__(self, expr, *a)
            import numpy as np
            if isinstance(v, (bool, np.bool_)):
                return v
            if isinstance(v, np.integer):
                v = int(v)
            elif isinstance(v, np.floating):
                v = float(v)
            if isinstance(v, int) and abs(v) >= 2**31:
                # also: arithmetic on integer *literals* is done in C's 32-bit int
                self.bad.append("int-range")
            elif isinstance(v, float) and v == v and abs(v) != math.inf \
                    and not (abs(v) < self.maxabs):
                self.bad.append("float-range")
            elif isinstance(v, complex):
                if not self.allow_complex:
                    self.bad.append("complex")
                elif not (abs(v) < self.maxabs):
                    self.bad.append("float-range")
            if self.minabs and isinstance(v, (float, complex)) and v == v \
                    and 0 < abs(v) < self.minabs:
                self.bad.append("float-range")      # would underflow in single precision
            return v

        allow_complex = False
        maxabs = 1e12
        minabs = 0.0

        rec = __call__

        def _tie(self, a, b):
            # a float comparison whose sides agree to rounding error may come out either way
            # once the sorting stringifier has re-associated a sum
            if (isinstance(a, float) or isinstance(b, float)) and not isinstance(a, complex) \
                    and not isinstance(b, complex):
                if abs(a - b) <= 1e-9 * max(1.0, abs(a), abs(b)):
                    self.bad.append("near-tie")

        def map_comparison(self, expr):
            self._tie(self.rec(expr.left), self.rec(expr.right))
            return EvaluationMapper.map_comparison(self, expr)

        def _truth(self, v):
            if isinstance(v, float) and abs(v) <= 1e-9:
                self.bad.append("near-tie")
            return v

        def map_if(self, expr):
            self._truth(self.rec(expr.condition))
            return EvaluationMapper.map_if(self, expr)

        def map_logical_not(self, expr):
            self._truth(self.rec(expr.child))
            return EvaluationMapper.map_logical_not(self, expr)

        def map_logical_and(self, expr):
            # operand by operand, stopping where the evaluator (and C) stop
            for ch in expr.children:
                if not self._truth(self.rec(ch)):
                    break
            return EvaluationMapper.map_logical_and(self, expr)

        def map_logical_or(self, expr):
            for ch in expr.children:
                if self._truth(self.rec(ch)):
                    break
            return EvaluationMapper.map_logical_or(self, expr)

        def map_min(self, expr):
            return EvaluationMapper.map_min(self, expr)

        def _shift(self, expr):
            n, k = self.rec(expr.shiftee), self.rec(expr.shift)
            if n < 0 or k < 0 or k > 30:
                # shifting a negative value or by a negative / too large amount is undefined
                # or implementation-defined in C
                self.bad.append("shift-range")
                if k < 0:
                    raise ValueError("negative shift")
            return n, k

        def map_left_shift(self, expr):
            n, k = self._shift(expr)
            return n << k

        def map_right_shift(self, expr):
            n, k = self._shift(expr)
            return n >> k

        def map_floor_div(self, expr):
            n, d = self.rec(expr.numerator), self.rec(expr.denominator)
            if n < 0 or d <= 0:
                self.bad.append("negative-or-zero-operand")
                if d == 0:
                    raise ZeroDivisionError
            return n // d

        def map_remainder(self, expr):
            n, d = self.rec(expr.numerator), self.rec(expr.denominator)
            if n < 0 or d <= 0:
                self.bad.append("negative-or-zero-operand")
                if d == 0:
                    raise ZeroDivisionError
            return n % d
    return Ref


def execute(scenario, open_sigs):
    import pymbolic.primitives as p
    from pymbolic.mapper.c_code import CCodeMapper
    from pymbolic.mapper.stringifier import (CSESplittingStringifyMapperMixin, PREC_NONE,
                                             StringifyMapper)

    @p.expr_dataclass()
    class Unsupp(p.Expression):
        child: object

    class SplitStr(CSESplittingStringifyMapperMixin, StringifyMapper):
        pass

    # user subclasses of stock nodes that inherit their parents' mapper methods
    class SubRem(p.Remainder):
        pass

    class SubQuot(p.Quotient):
        pass

    class SubProd(p.Product):
        pass

    cfg = scenario["config"]
    kind = cfg["kind"]
    cfloat = bool(cfg.get("cfloat")) and kind == "cplx"
    cbt = {"complex_constant_base_type": "float"} if cfloat else {}
    B = spec.Builder({"Unsupp": Unsupp, "SubRem": SubRem, "SubQuot": SubQuot,
                      "SubProd": SubProd})
    env = {k: B.build(v) for k, v in cfg["env"].items()}
    fenv = dict(env)
    fenv.update({"sin": math.sin, "cos": math.cos, "exp": math.exp, "fabs": abs})
    Ref = _make_ref_evaluator()
    if kind == "cplx":
        import cmath

        def lift(fr, fc):
            return lambda v: fc(v) if isinstance(v, complex) else fr(v)
        fenv.update({"sin": lift(math.sin, cmath.sin), "cos": lift(math.cos, cmath.cos),
                     "exp": lift(math.exp, cmath.exp)})

        class RefC(Ref):
            allow_complex = True
            # single precision programs: no intermediate value large enough for its rounding
            # error (6e-8 relative) to matter to a sine or an exponential
            maxabs = 1e4 if cfloat else 1e12
            # ... and none so small that its square or a quotient of such underflows
            minabs = 1e-12 if cfloat else 0.0
        Ref = RefC

    events, known, probes, faults, states = [], [], {}, {}, set()
    violation = None
    ms = {}
    steps = 0
    seen_expr_wrappers = {}     # jkey(child canon) -> set of mapper ids that saw it, for probes

    def probe(k, n=1):
        probes[k] = probes.get(k, 0) + n

    def viol(cls, detail):
        nonlocal violation
        if violation is None:
            violation = {"cls": cls, "detail": detail}

    def kf(sig, what):
        if sig in open_sigs:
            if not any(k["sig"] == sig for k in known):
                known.append({"sig": sig, "what": what})
            return True
        return False

    def lst(m):
        return [(n, t) for n, t in m.obj.cse_name_list]

    def get_mapper(d, create_now=True):
        mid = d["m"]
        if mid in ms:
            return ms[mid]
        m = _M()
        m.desc = d
        if d["kind"] == "root" or d["parent"] is None or d["parent"] not in ms:
            if d["kind"] == "mixin":
                m.obj = SplitStr()
            else:
                pre = []
                for nm, t in d.get("preset") or []:
                    child = B.build(t)
                    try:
                        pre.append((nm, CCodeMapper(**cbt)(child), child))
                    except Exception:  # noqa: BLE001
                        continue
                if pre:
                    m.obj = CCodeMapper(reverse=d["reverse"], cse_prefix=d["prefix"],
                                        cse_name_list=[(nm, tx) for nm, tx, _ in pre], **cbt)
                    m.preset = [(nm, child) for nm, _, child in pre]
                    probe("preset_assignments", len(pre))
                else:
                    m.obj = CCodeMapper(reverse=d["reverse"], cse_prefix=d["prefix"], **cbt)
        else:
            par = ms[d["parent"]]
            if d["kind"] == "copy":
                m.obj = par.obj.copy()
                probe("copies_after_assignment", 1 if par.obj.cse_name_list else 0)
            else:
                pairs = [(nm, B.build(t)) for nm, t in d["mapped"]]
                taken = {n for n, _ in lst(par)} | {n for n, _ in par.mapped} \
                    | {n for n, _ in par.ancestors_mapped} | {n for n, _ in par.preset}
                pairs = [(nm, c) for nm, c in pairs if nm not in taken]
                # the caller only promises children the lineage has not assigned itself
                uniq = []
                for nm, c in pairs:
                    cc = jkey(canon(c))
                    if any(cc == jkey(sn) for sn in par.seen) or any(
                            cc == jkey(canon(c2)) for _, c2 in uniq):
                        continue
                    uniq.append((nm, c))
                pairs = uniq
                m.obj = par.obj.copy_with_mapped_cses(pairs)
                m.mapped = pairs
                probe("mapped_cse_copies")
            m.seen = list(par.seen)
            m.names = dict(par.names)
            m.conflated = par.conflated
            m.preset = list(par.preset)
            m.ancestors_mapped = par.ancestors_mapped + par.mapped
            for nm, c in m.mapped:
                cc = canon(c)
                if not any(jkey(cc) == jkey(s) for s in m.seen):
                    m.seen.append(cc)
                m.names.setdefault(jkey(cc), nm)
            # a copy starts with exactly what its parent had (plus the supplied pairs)
            want = lst(par) + [(nm, c) for nm, c in m.mapped]
            got = list(m.obj.cse_name_list)
            if [n for n, _ in got] != [n for n, _ in want]:
                viol("C14/copy-lost-table", {"mapper": d, "parent_list": lst(par)[:10],
                                             "copy_list": [(n, str(t)) for n, t in got][:10]})
        m.snapshot = tuple((n, str(t)) for n, t in m.obj.cse_name_list)
        ms[mid] = m
        return m

    def check_tables(m, text, opi):
        """NameTableModel invariants 1-3 for mapper m after an emission that returned text."""
        entries = list(m.obj.cse_name_list)
        names = [n for n, _ in entries]
        if len(set(names)) != len(names):
            dup = sorted({n for n in names if names.count(n) > 1})
            viol("C14/name-not-unique", {"op": opi, "mapper": m.desc["m"], "names": dup,
                                         "list": [(n, str(t)) for n, t in entries][:12]})
            return
        pre = m.desc["prefix"] if m.desc["kind"] != "mixin" else None
        mapped_names = {n for n, _ in m.mapped} | {n for n, _ in m.ancestors_mapped}

        def cse_idents(s):
            toks = _IDENT.findall(s)
            if pre is None:
                return [t for t in toks if t in names or t.startswith("CSE")]
            return [t for t in toks if t.startswith(pre) or t in mapped_names]
        tokenizable = all(_IDENT.fullmatch(n) for n in names)
        for i, (n, t) in enumerate(entries):
            if not tokenizable:
                break        # names that are not identifiers cannot be told apart in text
            if not isinstance(t, str):
                continue     # a pair supplied through copy_with_mapped_cses
            for tok in cse_idents(t):
                if tok not in names[:i] and tok not in mapped_names:
                    viol("C14/use-before-assignment",
                         {"op": opi, "mapper": m.desc["m"], "in": f"{n} = {t}", "uses": tok,
                          "list": [(a, str(b)) for a, b in entries][:12]})
                    return
        if text is not None and tokenizable:
            for tok in cse_idents(text):
                if tok not in names and tok not in mapped_names:
                    viol("C14/use-before-assignment",
                         {"op": opi, "mapper": m.desc["m"], "in": text, "uses": tok})
                    return
        n_assigned = len(entries) - len(m.preset)
        if n_assigned != len(m.seen):
            classes = []
            for c in m.seen:
                if not any(util.model_eq(c, d) for d in classes):
                    classes.append(c)
            what = ("CCodeMapper.cse_to_name is keyed on the wrapped child with ==: CSE(i + 1) "
                    "and CSE(i + 1.0) share one assignment, so after CSE(i+1)*3 the expression "
                    "CSE(i+1.0)/2 is emitted as '_cse0 / 2' with _cse0 = i + 1, an integer "
                    "division in C (D1 in the C code mapper)")
            if len(classes) < len(m.seen) and len(classes) <= n_assigned <= len(m.seen) \
                    and kf("nested-typed-constant-conflation", what):
                m.conflated = True
                return
            viol("C14/assigned-twice" if n_assigned > len(m.seen) else "C14/missing-assignment",
                 {"op": opi, "mapper": m.desc, "assignments": [(a, str(b)) for a, b in entries][:14],
                  "distinct_wrapped_children": len(m.seen)})

    try:
        for opi, op in enumerate(scenario["ops"]):
            if violation is not None:
                break
            steps += 1
            if op[0] == "def":
                B.define(op[1], op[2])
                continue
            if op[0] == "copy":
                d = op[1]
                if d["parent"] in ms or d["parent"] is None:
                    get_mapper(d)
                events.append([opi, "copy", d["m"]])
                continue
            if op[0] != "emit":
                continue
            _, d, t, fault = op
            # parents referenced by this mapper that were never created (shrunk away)
            m = get_mapper(d)
            if violation is not None:
                break
            e = B.build(t)
            if kind in ("mixed", "float") and ctype_obj(
                    e, p, "float" if kind == "float" else "int") is None:
                probe("not_c_expressible_skipped")
                events.append([opi, "skip"])
                continue
            if kind == "mixed":
                probe("mixed_emissions")
            kids = []
            _wrapper_children(e, kids, p, m.desc["kind"] != "mixin")
            kid_canons = [canon(k) for k in kids]
            if len(kids) != len({jkey(c) for c in kid_canons}):
                pass
            before = {mid: tuple((n, str(tx)) for n, tx in mm.obj.cse_name_list)
                      for mid, mm in ms.items()}
            nbefore = len(m.obj.cse_name_list)
            try:
                if m.desc["kind"] == "mixin":
                    text = m.obj(e, PREC_NONE)
                else:
                    text = m.obj(e)
                raised = None
            except Exception as ex:  # noqa: BLE001
                text, raised = None, ex
            if raised is not None:
                if fault is None:
                    viol("C14/emit-raised", {"op": opi, "exc": type(raised).__name__,
                                             "msg": str(raised)[:200], "expr": str(canon(e))[:500]})
                    break
                faults["unsupported_node"] = faults.get("unsupported_node", 0) + 1
                probe("unsupported_node_faults")
                # which wrappers got their assignment before the emission was cut short?
                for k, kc in zip(kids, kid_canons):
                    try:
                        assigned = k in m.obj.cse_to_name
                    except Exception:  # noqa: BLE001
                        assigned = False
                    if assigned and not any(jkey(kc) == jkey(s) for s in m.seen):
                        m.seen.append(kc)
                        m.names[jkey(kc)] = m.obj.cse_to_name[k]
            else:
                for kc in kid_canons:
                    kk = jkey(kc)
                    if not any(kk == jkey(s) for s in m.seen):
                        m.seen.append(kc)
                    else:
                        probe("wrapper_reused_across_calls")
                    who = seen_expr_wrappers.setdefault(kk, [])
                    if who and who[0] != m.desc["m"] and m.desc["parent"] is None \
                            and m.desc["m"] not in who:
                        probe("wrapper_first_seen_in_copy_then_parent")
                    if m.desc["m"] not in who:
                        who.append(m.desc["m"])
                if any(isinstance(k, p.Expression) and _has_wrapper(k, p) for k in kids):
                    probe("nested_wrappers")
                # reference value now; the expression itself is not kept alive, so temporaries
                # die between calls the way they do in real use (their addresses get recycled)
                m.emitted.append((text, _expectation(Ref, e, kind, env, fenv, probes, cfloat), opi))
            check_tables(m, text, opi)
            # names stay what they were, and a bare wrapper is referred to by its one name
            try:
                for k, kc in zip(kids, kid_canons):
                    nm = m.obj.cse_to_name.get(k)
                    if nm is None:
                        continue
                    old = m.names.setdefault(jkey(kc), nm)
                    if old != nm:
                        twin = any(util.model_eq(kc, s2) and util.typed_differs(kc, s2)
                                   for s2 in m.seen)
                        if twin and kf("nested-typed-constant-conflation",
                                       "typed twins among wrapped children share one table "
                                       "entry in CCodeMapper.cse_to_name (D1 in the C code mapper)"):
                            m.conflated = True
                        else:
                            viol("C14/name-changed", {"op": opi, "child": str(kc)[:300],
                                                      "was": old, "now": nm})
            except TypeError:
                pass
            if raised is None and isinstance(e, p.CommonSubexpression) and not m.conflated:
                want = m.names.get(jkey(canon(e.child)))
                if want is not None and text != want:
                    viol("C14/name-changed", {"op": opi, "bare_wrapper_text": text, "want": want})
            # 4. nobody else's list moved
            for mid, mm in ms.items():
                now = tuple((n, str(tx)) for n, tx in mm.obj.cse_name_list)
                if mid != m.desc["m"] and now != before[mid]:
                    viol("C14/parent-aliased", {"op": opi, "emitting": m.desc["m"],
                                                "changed": mid})
                if mid == m.desc["m"] and now[:nbefore] != before[mid]:
                    viol("C14/assignment-rewritten", {"op": opi, "mapper": mid})
            # reach
            pxs = [n for n, _ in m.obj.cse_name_list]
            if any(re.search(r"_\d+$", n) for n in pxs[nbefore:]):
                probe("repeated_prefix")
            if any(re.search(r"_(u_2|0)(_\d+)?$", n) for n in pxs[nbefore:]) and any(
                    n.endswith("_u_2") or n.endswith("0") for n in pxs[:nbefore]):
                probe("prefix_collides_with_generated_name")
            events.append([opi, "emit", m.desc["m"], "raised" if raised is not None else text,
                           len(m.obj.cse_name_list)])
            # nothing but the pool and the mappers keeps expressions alive between emissions
            e = kids = kid_canons = None
            states.add(util.digest_of([[mid, list(mm.obj.cse_name_list and
                                                  [(n, str(tx)) for n, tx in mm.obj.cse_name_list])]
                                       for mid, mm in sorted(ms.items())])[:10])
    finally:
        pass

    post = None
    nontrivial = False
    if violation is None:
        post, nontrivial = _build_post(ms, kind, env, fenv, Ref, p, probes, cfloat)
    return {"events": events, "violation": violation, "known": known, "probes": probes,
            "faults": faults, "nontrivial": nontrivial, "steps": steps,
            "states": sorted(states)[:64], "post": post}


def _has_wrapper(o, p):
    acc = []
    _wrapper_children(o, acc, p)
    return bool(acc)


def _ref_value(Ref, e, ctx, reverse=False, naive=False):
    ev = Ref(ctx)
    ev.reverse_operands = reverse
    ev.naive = naive
    try:
        v = ev(e)
    except (ZeroDivisionError, OverflowError, ValueError, TypeError) as ex:
        return None, ["exception:" + type(ex).__name__]
    return v, ev.bad


def _has_np_int(e):
    import numpy as np
    import pymbolic.primitives as p
    if isinstance(e, np.integer):
        return True
    if isinstance(e, p.Expression):
        return any(_has_np_int(getattr(e, f, None)) for f in util._expr_field_names(e))
    if isinstance(e, tuple):
        return any(_has_np_int(x) for x in e)
    return False


def _narrow_ok(e, v, kind, fenv):
    """Constants of the narrow numpy integer types make the evaluator's arithmetic wrap (or
    signal overflow) within the type where C computes in long long: such programs are compiled
    but not compared or run.  The stock evaluator decides, with numpy's overflow signalling
    switched to raising: its value must be the one exact integer arithmetic gives."""
    if kind not in ("int", "mixed") or not _has_np_int(e):
        return True
    import numpy as np
    import warnings
    from pymbolic.mapper.evaluator import EvaluationMapper
    try:
        with np.errstate(all="raise"), warnings.catch_warnings():
            warnings.simplefilter("error")
            vf = EvaluationMapper(dict(fenv))(e)
        return (int(vf) == int(v)) if kind == "int" else (float(vf) == float(v))
    except Exception:  # noqa: BLE001
        return False


def _expectation(Ref, e, kind, env, fenv, probes, cfloat=False):
    ctx = dict(fenv)
    v, bad = _ref_value(Ref, e, ctx)
    ok = v is not None and not bad
    if ok and not _narrow_ok(e, v, kind, fenv):
        probes["discard_narrow_int_wraps"] = probes.get("discard_narrow_int_wraps", 0) + 1
        return ["discard", None, False]
    if ok and kind == "mixed":
        return ["float", float(v), True]       # exact arithmetic by construction
    if ok and kind == "cplx":
        # (single precision programs: inputs moved by 1e-5 must not move the value by 1e-4)
        pert, stab = (1e-5, 1e-4) if cfloat else (1e-13, 1e-9)
        ctx2 = dict(ctx)
        for name in env:
            ctx2[name] = ctx[name] * (1 + pert)
        cv = complex(v)
        good = True
        for c2, kw in ((ctx2, {}), (ctx, {"reverse": False, "naive": True}),
                       (ctx, {"reverse": True, "naive": True})):
            v2, bad2 = _ref_value(Ref, e, c2, **kw)
            if v2 is None or bad2 or abs(complex(v2) - cv) > stab * max(1.0, abs(cv)):
                good = False
        if cfloat and not (abs(cv) < 1e6):
            good = False
        if not good:
            probes["discard_ill_conditioned"] = probes.get("discard_ill_conditioned", 0) + 1
            return ["illcond", None, True]
        return ["cplxf" if cfloat else "cplx", [cv.real, cv.imag], True]
    if ok and kind == "float":
        # conditioning filter
        ctx2 = dict(ctx)
        for name in env:
            ctx2[name] = ctx[name] * (1 + 1e-13)
        v2, bad2 = _ref_value(Ref, e, ctx2)
        fv = float(v)
        # ... and the value must not depend on the order in which sums and products are
        # accumulated (the sorting stringifier is free to re-associate them)
        for rev in (False, True):
            v3, bad3 = _ref_value(Ref, e, ctx, reverse=rev, naive=True)
            if v3 is None or bad3 or abs(float(v3) - fv) > 1e-9 * max(1.0, abs(fv)):
                v2 = None
        if v2 is None or bad2 or abs(float(v2) - fv) > 1e-9 * max(1.0, abs(fv)):
            probes["discard_ill_conditioned"] = probes.get("discard_ill_conditioned", 0) + 1
            return ["illcond", None, True]
        return ["float", fv, True]
    if ok:
        return ["int", int(v), True]
    key = "discard_" + (bad[0] if bad else "none").split(":")[0]
    probes[key] = probes.get(key, 0) + 1
    return ["discard", None, False]


def _build_post(ms, kind, env, fenv, Ref, p, probes, cfloat=False):
    """C functions for every mapper that emitted something, with expected values."""
    from pymbolic.mapper.c_code import CCodeMapper
    ctype = "double" if kind in ("float", "cplx") else "long long"
    funcs = []
    nontrivial = False
    total_assign = 0
    for mid, m in sorted(ms.items()):
        if m.desc["kind"] == "mixin" or not m.emitted:
            continue
        if any(not re.fullmatch(r"[A-Za-z_][A-Za-z0-9_]*", n) for n, _ in m.obj.cse_name_list):
            probes["functions_left_out_non_identifier_names"] = probes.get(
                "functions_left_out_non_identifier_names", 0) + 1
            continue
        if m.conflated:
            # typed twins share an assignment here (known finding): types and values of this
            # mapper's program are not meaningful, it is left out
            probes["functions_left_out_typed_twins"] = probes.get(
                "functions_left_out_typed_twins", 0) + 1
            continue
        ctx = dict(fenv)
        body = []
        for v, val in sorted(env.items()):
            if kind in ("float", "cplx"):
                lit = "NAN" if val != val else "INFINITY" if val == math.inf else \
                    "-INFINITY" if val == -math.inf else repr(val)
                if cfloat:
                    body.append(f"  std::complex<float> {v} = std::complex<float>({lit}, 0.0);")
                else:
                    body.append(f"  {ctype} {v} = {lit};")
            else:
                body.append(f"  {ctype} {v} = {val};")
        runnable = True
        # names promised through copy_with_mapped_cses: define them from a fresh mapper's text
        for nm, child in m.ancestors_mapped + m.mapped:
            cm = CCodeMapper(**({"complex_constant_base_type": "float"} if cfloat else {}))
            try:
                txt = cm(child)
            except Exception:  # noqa: BLE001
                return None, False
            for n2, t2 in cm.cse_name_list:
                body.append(f"  {ctype} pre_{n2} = 0; (void)pre_{n2};")
            if cm.cse_name_list:
                # keep it simple: mapped children never contain wrappers of their own
                return None, False
            v, bad = _ref_value(Ref, child, ctx)
            if v is None or bad or not _narrow_ok(child, v, kind, fenv):
                runnable = False
            ct = ctype
            if kind == "mixed":
                ct = {"int": "long long", "float": "double"}.get(ctype_obj(child, p))
                if ct is None:
                    return None, False
            if kind == "cplx":
                ct = "auto"         # C++: double or std::complex<double>
            body.append(f"  {ct} {nm} = {txt};")
        entries = [(n, t) for n, t in m.obj.cse_name_list if isinstance(t, str)]
        total_assign += len(entries)
        name_type = {}
        if kind == "mixed":
            for child, nm in m.obj.cse_to_name.items():
                name_type[nm] = {"int": "long long", "float": "double"}.get(ctype_obj(child, p))
        for nm, child in m.preset:
            if kind == "mixed":
                name_type[nm] = {"int": "long long", "float": "double"}.get(ctype_obj(child, p))
            v, bad = _ref_value(Ref, child, ctx)
            if v is None or bad or not _narrow_ok(child, v, kind, fenv):
                runnable = False
        for n, t in entries:
            ct = name_type.get(n, ctype) if kind == "mixed" else ctype
            if kind == "cplx":
                ct = "auto"
            if ct is None:
                runnable = False       # hoisted while a faulted emission was under way
                ct = "double"
            body.append(f"  {ct} {n} = {t};")
        # every hoisted child (also those inherited from a parent) must be safely
        # evaluable, else the function is compile-only
        for k in list(m.obj.cse_to_name):
            v, bad = _ref_value(Ref, k, ctx)
            if v is None or bad or not _narrow_ok(k, v, kind, fenv):
                runnable = False
        expects = []
        for j, (text, (ekind, evalue, ok), opi) in enumerate(m.emitted):
            expects.append([ekind, evalue, opi])
            fmt = "%lld" if kind == "int" else "%.17g"
            cast = "(long long)" if kind == "int" else "(double)"
            guard = "" if ok else "if (0) "
            if kind == "cplx":
                body.append(f'  {guard}{{ std::complex<double> r_ = ({text}); '
                            f'printf("@FN@ {j} %.17g %.17g\\n", r_.real(), r_.imag()); }}')
                continue
            body.append(f'  {guard}printf("@FN@ {j} {fmt}\\n", {cast}({text}));')
        funcs.append({"mapper": mid, "body": body, "runnable": runnable, "expects": expects,
                      "texts": [t for t, _, _ in m.emitted]})
    if not funcs:
        return None, False
    nontrivial = total_assign >= 2 and (len(ms) > 1 or probes.get("wrapper_reused_across_calls", 0) > 0)
    return {"kind": kind, "funcs": funcs}, nontrivial

# }}}


# {{{ batch compile-and-run (runs in the template process, not in the forked child)

_PRELUDE = """#include <stdio.h>
#include <math.h>
#define min(a, b) (((a) < (b)) ? (a) : (b))
#define max(a, b) (((a) > (b)) ? (a) : (b))
"""


_PRELUDE_CXX = """#include <cstdio>
#include <cmath>
#include <complex>
"""


def _compile_and_run(units, cxx=False):
    """units: list of (fname, body lines, runnable).  Returns (status, stdout or message).
    cxx: the units hold complex constants, which the mapper prints as std::complex<double>."""
    d = tempfile.mkdtemp(prefix="verif-c14-")
    try:
        src = [_PRELUDE_CXX if cxx else _PRELUDE]
        for fname, body, runnable in units:
            src.append(f"static void {fname}(void) {{")
            src += [ln.replace("@FN@", fname) for ln in body]
            src.append("}")
        src.append("int main(void) {")
        for fname, body, runnable in units:
            if runnable:
                src.append(f"  {fname}();")
            else:
                src.append(f"  if (0) {fname}();")
        src.append("  return 0;\n}")
        cpath = os.path.join(d, "t.cpp" if cxx else "t.c")
        with open(cpath, "w") as f:
            f.write("\n".join(src))
        exe = os.path.join(d, "t")
        try:
            cp = subprocess.run(["g++" if cxx else "gcc", "-O0", "-fwrapv", "-w", "-o", exe,
                                 cpath, "-lm"],
                                capture_output=True, text=True, timeout=300)
        except (subprocess.TimeoutExpired, OSError) as e:
            return "harness", f"gcc did not run: {e}"
        if cp.returncode != 0:
            if "internal compiler error" in cp.stderr:
                return "harness", cp.stderr[-500:]
            return "compile-error", cp.stderr[:1500]
        try:
            rp = subprocess.run([exe], capture_output=True, text=True, timeout=120)
        except subprocess.TimeoutExpired:
            return "run-timeout", ""
        if rp.returncode != 0:
            return "run-crash", f"exit {rp.returncode}"
        return "ok", rp.stdout
    finally:
        shutil.rmtree(d, ignore_errors=True)


def post_batch(payloads, open_sigs):
    from .driver import HarnessError
    results = [None] * len(payloads)
    units = []
    index = {}
    for cxx in (False, True):
        _post_batch_lang(payloads, results, cxx)
    return results


def _post_batch_lang(payloads, results, cxx):
    from .driver import HarnessError
    units = []
    index = {}
    for pi, pl in enumerate(payloads):
        if pl is None or (pl["kind"] == "cplx") != cxx:
            continue
        for fi, fn in enumerate(pl["funcs"]):
            name = f"f_{pi}_{fi}"
            units.append((name, fn["body"], fn["runnable"]))
            index[name] = (pi, fi)
    if not units:
        return results
    if cxx and shutil.which("g++") is None:
        return results          # no C++ compiler: these programs are not compiled
    status, out = _compile_and_run(units, cxx)
    if status == "harness":
        raise HarnessError(out)
    if status == "ok":
        _compare(out, payloads, index, results)
        return results
    # something in the batch does not compile or crashes: isolate per payload
    for pi, pl in enumerate(payloads):
        if pl is None or (pl["kind"] == "cplx") != cxx:
            continue
        us = [(f"f_{pi}_{fi}", fn["body"], fn["runnable"]) for fi, fn in enumerate(pl["funcs"])]
        st, o = _compile_and_run(us, cxx)
        if st == "harness":
            raise HarnessError(o)
        if st == "ok":
            _compare(o, payloads, {u[0]: (pi, int(u[0].rsplit("_", 1)[1])) for u in us}, results)
        elif st == "compile-error":
            results[pi] = {"violation": {"cls": "C14/does-not-compile",
                                         "detail": {"gcc": o[:800],
                                                    "bodies": [fn["body"][-6:] for fn in pl["funcs"]]}}}
        else:
            results[pi] = {"violation": {"cls": "C14/program-crashed",
                                         "detail": {"status": st, "msg": o,
                                                    "bodies": [fn["body"][-6:] for fn in pl["funcs"]]}}}
    return results


def _compare(out, payloads, index, results):
    got = {}
    for ln in out.splitlines():
        parts = ln.split()
        if len(parts) == 3 and parts[0] in index:
            got[(parts[0], int(parts[1]))] = parts[2]
        elif len(parts) == 4 and parts[0] in index:
            got[(parts[0], int(parts[1]))] = (parts[2], parts[3])
    for name, (pi, fi) in index.items():
        pl = payloads[pi]
        fn = pl["funcs"][fi]
        res = results[pi] or {"violation": None, "probes": {}}
        results[pi] = res
        if not fn["runnable"]:
            res["probes"]["compile_only_functions"] = res["probes"].get("compile_only_functions", 0) + 1
            continue
        for j, (k, want, opi) in enumerate(fn["expects"]):
            g = got.get((name, j))
            if k in ("discard", "illcond"):
                continue
            if g is None:
                if res["violation"] is None:
                    res["violation"] = {"cls": "C14/program-crashed",
                                        "detail": {"missing_output": [name, j]}}
                continue
            if k in ("cplx", "cplxf"):
                res["probes"]["complex_values_compared"] = res["probes"].get(
                    "complex_values_compared", 0) + 1
                gv, wv = complex(float(g[0]), float(g[1])), complex(*want)
                tol = 2e-3 if k == "cplxf" else 1e-7
                if not (abs(gv - wv) <= tol * max(1.0, abs(wv))) and res["violation"] is None:
                    res["violation"] = {"cls": "C14/value-mismatch/complex", "detail": {
                        "op": opi, "c_text": fn["texts"][j], "c_value": [gv.real, gv.imag],
                        "evaluator": want,
                        "assignments": [b for b in fn["body"] if "printf" not in b][-8:]}}
            elif k == "int":
                res["probes"]["int_values_compared"] = res["probes"].get("int_values_compared", 0) + 1
                if int(g) != want and res["violation"] is None:
                    res["violation"] = {"cls": "C14/value-mismatch/int", "detail": {
                        "op": opi, "c_text": fn["texts"][j], "c_value": int(g), "evaluator": want,
                        "assignments": [b for b in fn["body"] if "printf" not in b][-8:]}}
            else:
                res["probes"]["float_values_compared"] = res["probes"].get("float_values_compared", 0) + 1
                gv = float(g)
                if (gv != gv and want != want) or gv == want:
                    continue                       # not-a-number on both sides; equal infinities
                if not (abs(gv - want) <= 1e-7 * max(1.0, abs(want))) and res["violation"] is None:
                    res["violation"] = {"cls": "C14/value-mismatch/float", "detail": {
                        "op": opi, "c_text": fn["texts"][j], "c_value": gv, "evaluator": want,
                        "assignments": [b for b in fn["body"] if "printf" not in b][-8:]}}

# }}}


def simplifications(scn):
    ops = scn["ops"]
    cfg = scn["config"]
    for i, op in enumerate(ops):
        if op[0] == "def":
            for s in spec.subterms(op[2]):
                if spec.is_expr_term(s):
                    yield {"config": cfg, "ops": ops[:i] + [["def", op[1], s]] + ops[i + 1:]}
        elif op[0] == "emit":
            t = op[2]
            for s in _deep_subterms(t):
                yield {"config": cfg, "ops": ops[:i] + [["emit", op[1], s, op[3]]] + ops[i + 1:]}
            if op[1]["parent"] is not None:
                root = {"m": op[1]["m"], "parent": None, "kind": "root",
                        "reverse": op[1]["reverse"], "prefix": op[1]["prefix"], "mapped": []}
                yield {"config": cfg, "ops": ops[:i] + [["emit", root, t, op[3]]] + ops[i + 1:]}


def _deep_subterms(t):
    out = []
    for s in spec.subterms(t):
        if spec.is_expr_term(s):
            out.append(s)
        elif s[0] == "t":
            out += [x for x in s[1] if spec.is_expr_term(x)]
    return out
