"""C17 -- pickles and persistent keys are stable across processes.

System under simulation: 2-4 real interpreter processes ("nodes") with different
PYTHONHASHSEED and -O, exchanging pickle bytes through a simulator-owned store under one
seeded schedule.  Faults: crash+restart under a new hash seed (only stored bytes survive),
duplicate delivery, reordered delivery.  Oracles: per-node locally built twin (==, hash,
dict/set look-up), digests compared across all nodes and incarnations, compiled
expressions against the evaluator on the consuming node.  See DESIGN.md section 3/C17.
"""
from __future__ import annotations

import atexit
import base64
import json
import os
import random
import shutil
import signal
import socket
import subprocess
import sys
import tempfile
import time

from . import spec, util
from .util import jkey

ID = "C17"
RULE = ("a run = 2-4 node processes (PYTHONHASHSEED drawn per node, -O on some) executing "
        "10-40 seeded ops: build, hash (before a later dumps), dumps with protocol 0-5, loads "
        "on any node any number of times in any order, ==, look-up with a locally built twin, "
        "digests, compile/call/pickle of compiled expressions, crash+restart under a new hash "
        "seed; non-trivial = at least one loads on a node whose hash seed differs from the "
        "producer's; distinct = distinct event-log digests among non-trivial runs")
STATE_MEASURE = ("(per node: hash-seed slot, -O, number of live handles that carry a cached "
                 "hash; number of stored messages) after each op")
REAL = ["real CPython interpreter processes per node (forked from a pristine zygote started "
        "with that PYTHONHASHSEED / -O, and a sample started from scratch)",
        "pymbolic.primitives pickling support, PersistentHashWalkMapper, pytools KeyBuilder, "
        "pymbolic.compiler.CompiledExpression", "the pickle module, protocols 0-5"]
STUBS = ["the message store / network (a dict owned by the simulator)",
         "the scheduler deciding which node does what next",
         "user node classes in dst/usertypes.py"]
ASSUMPTIONS = [
    "byte corruption, loss and partitions are not injected: there is no protocol or "
    "acknowledgement to check and a flipped byte may decode to another valid expression",
    "digests are compared between builds of the identical spec (same keyword insertion "
    "order); raw float('nan') leaves are not generated",
    "a node forked from a zygote that only imported pymbolic is equivalent to a freshly "
    "started interpreter with the same PYTHONHASHSEED/-O (a sample of runs starts nodes "
    "from scratch to keep this honest)",
    "CompiledExpression with two or more unlisted free variables raises TypeError on every "
    "node on this tree (a C13 matter); such compiles are only required to behave the same "
    "everywhere",
]
EXPECTED_PROBES = ["loads_other_hash_seed", "hash_then_dumps_then_loads_other_seed",
                   "loads_after_restart", "loads_across_O_modes", "duplicate_deliveries",
                   "user_class_messages", "legacy_class_messages", "compiled_roundtrips",
                   "digests_of_shared_dags",
                   "fresh_interpreter_nodes", "digests_compared"]
BUDGET_SCALE = {"quick": 1.25, "thorough": 1.0}

K_ZYG = 6
VERIF_DIR = os.path.dirname(os.path.dirname(os.path.abspath(__file__)))
_ZYG = None          # {"<k>[O]": socket path}
_ZYG_BASE = None
_ZYG_PROCS = []
_ZYG_DIR = None


# {{{ zygotes

def zyg_hash_seed(base, k):
    if k == 0:
        return 0          # PYTHONHASHSEED=0: hash randomisation switched off
    return util.derive("zygote", base, k) % (2**32)


def _agent_env(hs):
    env = dict(os.environ)
    env["PYTHONHASHSEED"] = str(hs)
    env["PYTHONPATH"] = VERIF_DIR + os.pathsep + env.get("PYTHONPATH", "")
    env["PYTHONDONTWRITEBYTECODE"] = "1"
    return env


def start_zygotes(base):
    global _ZYG, _ZYG_DIR, _ZYG_BASE
    if _ZYG is not None:
        return _ZYG
    _ZYG_BASE = base
    _ZYG_DIR = tempfile.mkdtemp(prefix="verif-c17-")
    procs = []
    z = {}
    for k in range(K_ZYG):
        for opt in (False, True):
            path = os.path.join(_ZYG_DIR, f"z{k}{'O' if opt else ''}.sock")
            # (nodes keep address-space randomisation: two node processes with the same hash
            # seed still differ in where their type objects live, and such hashes are
            # address based)
            cmd = [sys.executable] + (["-O"] if opt else []) + [
                "-m", "dst.node_agent", "--zygote", path]
            p = subprocess.Popen(cmd, env=_agent_env(zyg_hash_seed(base, k)), cwd=VERIF_DIR,
                                 stdout=subprocess.PIPE, stdin=subprocess.DEVNULL)
            procs.append(p)
            z[f"{k}{'O' if opt else ''}"] = path
    for p in procs:
        line = p.stdout.readline()
        if b"ready" not in line:
            raise RuntimeError("zygote did not come up")
    _ZYG_PROCS.extend(procs)
    _ZYG = z
    atexit.register(stop_zygotes)
    return z


def stop_zygotes():
    global _ZYG
    for p in _ZYG_PROCS:
        try:
            p.kill()
        except Exception:  # noqa: BLE001
            pass
    _ZYG_PROCS.clear()
    if _ZYG_DIR:
        shutil.rmtree(_ZYG_DIR, ignore_errors=True)
    _ZYG = None


def driver_init(base):
    return {"zygotes": start_zygotes(base), "zyg_base": base}


def driver_fini():
    stop_zygotes()


def template_init(job):
    global _ZYG, _ZYG_BASE
    if job.get("zygotes"):
        _ZYG = job["zygotes"]
        _ZYG_BASE = job["zyg_base"]
    elif _ZYG is None:
        start_zygotes(job.get("base_seed", util.base_seed()))

# }}}


# {{{ generation

ARITH = ["Variable", "Sum", "Product", "Quotient", "Power", "FloorDiv", "Remainder", "If",
         "Comparison", "Min", "Max"]


def _np_twin(t):
    """the same term with every Python int / float / bool constant as a numpy scalar of the
    same kind (such twins are equal expressions and have one walk-mapper key)"""
    k = t[0]
    if k == "i":
        return ["np", "int64", repr(int(t[1]))]
    if k == "f":
        return ["np", "float64", t[1]]
    if k == "b":
        return ["np", "bool_", repr(bool(t[1]))]
    if k == "n":
        return ["n", t[1], [_np_twin(x) for x in t[2]]]
    if k == "t":
        return ["t", [_np_twin(x) for x in t[1]]]
    if k in ("im", "d", "mp"):
        return [k, [[kk, _np_twin(v)] for kk, v in t[1]]]
    if k == "let":
        return ["let", [[nm, _np_twin(v)] for nm, v in t[1]], _np_twin(t[2])]
    return t


def _np_norm(t):
    """inverse direction, for keying walk-mapper digests: numpy int / float / bool scalars as
    the Python constants they convert to"""
    k = t[0]
    if k == "np":
        if t[1].startswith(("int", "uint")):
            return ["i", int(float(t[2]))]
        if t[1] in ("float64",):
            return ["f", repr(float(t[2]))]
        if t[1] == "bool_":
            return ["b", t[2] == "True"]
        return t
    if k == "f":
        return ["f", repr(float(t[1]))]
    if k == "n":
        return ["n", t[1], [_np_norm(x) for x in t[2]]]
    if k == "t":
        return ["t", [_np_norm(x) for x in t[1]]]
    if k in ("im", "d", "mp"):
        return [k, [[kk, _np_norm(v)] for kk, v in t[1]]]
    return t


def generate(seed, tier):
    from .c01 import GA_FIELDS, _Gen
    from .usertypes import USER_FIELDS
    r = random.Random(seed)
    nn = r.randint(2, 4)
    fresh_run = r.random() < (0.04 if tier == "quick" else 0.08)
    nodes = []
    seed0_run = r.random() < 0.08      # a run whose nodes all switch hash randomisation off
    for n in range(nn):
        nodes.append({"zk": 0 if seed0_run else r.randrange(K_ZYG), "opt": r.random() < 0.3
                      if not seed0_run else bool(n % 2),
                      "fresh": fresh_run and r.random() < 0.5,
                      "hs": r.randrange(2**32)})
    classes = list(spec.ALL_BUILTIN) + list(GA_FIELDS) + list(USER_FIELDS) * 2
    class _Gen17(_Gen):
        def field(self, kind, depth):
            if kind == "FS":
                return ["fs", sorted(self.rng.sample(["alpha", "beta", "gamma", "delta", "eps"],
                                                     self.rng.randint(2, 4)))]
            if kind == "s" and self.rng.random() < 0.05:
                # a name that is an instance of a str subclass
                return ["nstr", self.rng.choice(self.idents)]
            return super().field(kind, depth)

    g = _Gen17(r, classes=classes, max_depth=r.choice([1, 2, 3, 3, 4]), pool=[],
             idents=["x", "y", "z"], p_leaf=0.3,
             leaf_classes=("Variable", "Variable", "SubVariable", "LegacyVar"),
             const_kinds=("i", "i", "f", "b", "npi", "npf", "npb", "c", "uc"),
             const_values=(0, 1, 2, -1, 3, 7))
    g.extra_fields = dict(GA_FIELDS)
    g.extra_fields.update(USER_FIELDS)
    g.allow_short = True
    class _ArithGen(_Gen):
        def node(self, cls, depth):
            if cls == "Power":
                # small powers of a variable only: the Python text of nested powers is
                # right-associative (z**5**x**y) and explodes when it is evaluated
                return ["n", "Power", [["n", "Variable", [["s", self.rng.choice(self.idents)]]],
                                       ["i", self.rng.choice([2, 3])]]]
            return super().node(cls, depth)

    # (compiled expressions) sometimes every variable is an instance of a user subclass
    cvar_class = r.choice([None, None, None, "SubVariable", "LegacyVar"])
    ga = _ArithGen(r, classes=ARITH, max_depth=3, pool=[], idents=["x", "y", "z"], p_leaf=0.35,
                   const_kinds=("i", "f"), const_values=(1, 2, 3, 5),
                   leaf_classes=(cvar_class or "Variable",))
    ga.extra_fields = {"SubVariable": ["s"], "LegacyVar": ["s"]}
    if cvar_class:
        ga.classes = [cvar_class if c == "Variable" else c for c in ga.classes]
    terms = []
    for _ in range(r.randint(2, 5)):
        t = g.term(0)
        while not spec.is_expr_term(t):
            t = g.term(0)
        terms.append(t)
    if r.random() < 0.25:
        # numpy scalars that are equal, of one dtype, and still not the same constant
        vx = ["n", "Variable", [["s", "x"]]]
        for z in ("0.0", "-0.0"):
            terms.append(["n", r.choice(["Sum", "Product"]),
                          [["t", [vx, ["np", "float64", z]]]]])
    # the same expression with and without shared sub-objects (pickle keeps the sharing)
    for t in list(terms):
        if r.random() < 0.35:
            subs = [s for s in spec.subterms(t) if spec.is_expr_term(s) and s[0] == "n"]
            for s2 in spec.subterms(t):
                if s2[0] == "t":
                    subs += [x for x in s2[1] if x[0] == "n"]
            sub = r.choice(subs) if subs else t
            shared = ["let", [["s0", sub]],
                      ["n", r.choice(["Sum", "Product", "Min"]),
                       [["t", [["r", "s0"], t, ["r", "s0"]]]]]]
            terms.append(shared)
            terms.append(spec.expand(shared))
    deep_term = None
    if r.random() < 0.15:
        # a deep chain: the only kind of expression on which the stack can run out mid-hash
        t = ["n", "Variable", [["s", "x"]]]
        for lvl in range(r.randint(40, 120)):
            kcls = r.choice(["Sum", "Product", "Power", "Quotient"])
            t = (["n", kcls, [["t", [t, ["i", lvl % 5]]]]] if kcls in ("Sum", "Product")
                 else ["n", kcls, [t, ["i", 2 + lvl % 3]]])
        deep_term = t
        terms.append(t)
    cterms = []
    for _ in range(r.randint(0, 2)):
        t = ga.term(0)
        while not spec.is_expr_term(t):
            t = ga.term(0)
        cterms.append(t)
    # expressions for a user subclass of CompiledExpression that supplies sin/cos itself
    ctx_terms = []
    for _ in range(r.randint(0, 1)):
        inner = ga.term(1)
        fn = r.choice([["n", "Variable", [["s", "sin"]]], ["n", "Variable", [["s", "cos"]]],
                       ["n", "Lookup", [["n", "Variable", [["s", "numpy"]]], ["s", "abs"]]],
                       ["n", "Lookup", [["n", "Variable", [["s", "math"]]], ["s", "fabs"]]]])
        ctx_terms.append(["n", "Sum", [["t", [
            ["n", "Call", [fn, ["t", [inner]]]],
            ["n", "Variable", [["s", r.choice(["x", "y", "z"])]]]]]]])
    ops = []
    have = {n: [] for n in range(nn)}       # node -> handle names (generation-time guess)
    chave = {n: [] for n in range(nn)}
    msgs, cmsgs = [], []
    hc = [0]

    def newh():
        hc[0] += 1
        return f"h{hc[0]}"

    nops = r.randint(10, 40)
    for _ in range(nops):
        n = r.randrange(nn)
        x = r.random()
        if x < 0.18 or not any(have.values()):
            h = newh()
            t = r.choice(terms + cterms)
            ops.append(["build", n, h, t])
            have[n].append(h)
        elif x < 0.30 and have[n]:
            ops.append(["hash", n, r.choice(have[n])]
                       + ([r.randint(5, 150)] if deep_term is not None and r.random() < 0.5 else []))
        elif x < 0.45 and have[n]:
            m = f"m{len(msgs)}"
            ops.append(["dumps", n, r.choice(have[n]), r.randint(0, 5), m]
                       + ([r.choice(["dict", "set", "tuple", "list"])] if r.random() < 0.2 else []))
            msgs.append(m)
            # bias: deliver soon, elsewhere
            if r.random() < 0.7:
                n2 = r.choice([k for k in range(nn) if k != n])
                h = newh()
                ops.append(["loads", n2, m, h])
                have[n2].append(h)
        elif x < 0.62 and msgs:
            h = newh()
            ops.append(["loads", n, r.choice(msgs), h])
            have[n].append(h)
        elif x < 0.70 and len(have[n]) >= 2:
            ops.append(["eq", n, r.choice(have[n]), r.choice(have[n])])
        elif x < 0.76 and have[n]:
            ops.append(["lookup", n, r.choice(have[n])])
        elif x < 0.84 and have[n]:
            ops.append(["digest", n, r.choice(have[n])])
            if r.random() < 0.3:
                # an equal expression whose constants are numpy scalars, digested elsewhere
                t = r.choice(terms)
                n3, n4 = r.randrange(nn), r.randrange(nn)
                for nx, tx in ((n3, t), (n4, _np_twin(t))):
                    h = newh()
                    ops.append(["build", nx, h, tx])
                    ops.append(["digest", nx, h])
                    have[nx].append(h)
            if r.random() < 0.6:
                # the same expression digested by another node, whose history differs
                t = r.choice(terms)
                for n3 in r.sample(range(nn), 2):
                    h = newh()
                    ops.append(["build", n3, h, t])
                    ops.append(["digest", n3, h])
                    have[n3].append(h)
        elif x < 0.90 and (cterms or ctx_terms):
            # compiled expression life cycle
            h = newh()
            use_ctx = bool(ctx_terms) and (not cterms or r.random() < 0.4)
            t = r.choice(ctx_terms if use_ctx else cterms)
            ops.append(["build", n, h, t])
            have[n].append(h)
            c = f"c{hc[0]}"
            listed = r.choice([["x", "y", "z"], ["z", "x", "y"], ["x", "y"], ["x"], []])
            how = r.choice([None, None, {"as_variables": True},
                            {"as_variables": True, "grow_list_after": True}])
            if use_ctx:
                listed = r.choice([["x", "y", "z"], ["z", "x", "y"]])
                how = dict(how or {}, with_context=True)
            elif cvar_class and r.random() < 0.7:
                how = dict(how or {}, var_class=cvar_class)
            ops.append(["compile", n, h, listed, c] + ([how] if how else []))
            args = [r.choice([["i", 2], ["f", "1.5"], ["i", 3], ["f", "0.25"]]) for _ in range(3)]
            ops.append(["call", n, c, args])
            m = f"cm{len(cmsgs)}"
            ops.append(["cdumps", n, c, r.randint(0, 5), m])
            cmsgs.append(m)
            n2 = r.randrange(nn)
            c2 = f"c{hc[0]}r"
            ops.append(["cloads", n2, m, c2])
            if r.random() < 0.3:
                # a relay: the node that unpickled it passes it on before ever calling it
                m2 = f"cm{len(cmsgs)}"
                ops.append(["cdumps", n2, c2, r.randint(0, 5), m2])
                cmsgs.append(m2)
                n3 = r.randrange(nn)
                c3 = f"c{hc[0]}rr"
                ops.append(["cloads", n3, m2, c3])
                ops.append(["call", n3, c3, args])
            ops.append(["call", n2, c2, args])
        elif x < 0.97:
            ops.append(["crash", n, {"zk": r.randrange(K_ZYG), "opt": r.random() < 0.3,
                                     "fresh": fresh_run and r.random() < 0.3,
                                     "hs": r.randrange(2**32)}])
            have[n] = []
            chave[n] = []
        else:
            h = newh()
            ops.append(["build", n, h, ["fresh", "none"]])
            have[n].append(h)
    if deep_term is not None:
        # its first hash on some node happens with little stack left; it is looked up afterwards
        for _ in range(r.randint(1, 2)):
            n = r.randrange(nn)
            h = newh()
            seq = [["build", n, h, deep_term], ["hash", n, h, r.randint(5, 60)], ["lookup", n, h]]
            if r.random() < 0.5:
                m = f"m{len(msgs)}"
                msgs.append(m)
                n2 = r.randrange(nn)
                seq += [["dumps", n, h, r.randint(0, 5), m], ["loads", n2, m, newh()]]
            at = r.randint(0, len(ops))
            ops[at:at] = seq
    return {"config": {"nodes": nodes}, "ops": ops}

# }}}


# {{{ execution

class Node:
    def __init__(self, cfg, base):
        self.cfg = cfg
        self.proc = None
        self.sock = None
        if cfg.get("fresh"):
            cmd = [sys.executable] + (["-O"] if cfg["opt"] else []) + [
                "-m", "dst.node_agent", "--stdio"]
            self.proc = subprocess.Popen(cmd, env=_agent_env(cfg["hs"]), cwd=VERIF_DIR,
                                         stdin=subprocess.PIPE, stdout=subprocess.PIPE)
            self.rf, self.wf = self.proc.stdout, self.proc.stdin
            self.hash_seed = cfg["hs"]
        else:
            key = f"{cfg['zk'] % K_ZYG}{'O' if cfg['opt'] else ''}"
            self.sock = socket.socket(socket.AF_UNIX, socket.SOCK_STREAM)
            self.sock.settimeout(30)
            self.sock.connect(_ZYG[key])
            self.rf = self.sock.makefile("rb")
            self.wf = self.sock.makefile("wb")
            self.hash_seed = zyg_hash_seed(base, cfg["zk"] % K_ZYG)
        hello = json.loads(self.rf.readline())
        self.pid = hello["hello"]
        self.optimize = hello["optimize"]
        if str(self.hash_seed) != str(hello["hashseed"]):
            raise RuntimeError(f"node hash seed {hello['hashseed']} != expected {self.hash_seed}")
        if bool(self.optimize) != bool(cfg["opt"]):
            raise RuntimeError("node optimisation mode differs from configuration")

    def request(self, d):
        self.wf.write((json.dumps(d) + "\n").encode("utf8"))
        self.wf.flush()
        line = self.rf.readline()
        if not line:
            raise RuntimeError("node died")
        return json.loads(line)

    def kill(self):
        try:
            os.kill(self.pid, signal.SIGKILL)
        except (ProcessLookupError, PermissionError):
            pass
        for f in (self.rf, self.wf):
            try:
                f.close()
            except Exception:  # noqa: BLE001
                pass
        if self.sock is not None:
            self.sock.close()
        if self.proc is not None:
            try:
                self.proc.wait(timeout=10)
            except Exception:  # noqa: BLE001
                pass


def execute(scenario, open_sigs):
    from .usertypes import USER_CLASSES
    from pymbolic.geometric_algebra import primitives as gap
    from .util import canon, model_eq
    if _ZYG is None:
        template_init({})
    base = _ZYG_BASE
    cfgs = [dict(c) for c in scenario["config"]["nodes"]]
    extra = dict(USER_CLASSES)
    for n in ("NablaComponent", "Nabla", "DerivativeSource", "MultiVectorVariable"):
        extra[n] = getattr(gap, n)

    events, known, probes, faults, states = [], [], {}, {}, set()
    violation = None
    steps = 0
    nodes = {}
    handle_term = {}       # (node, h) -> term
    hashed = set()         # (node, h) hashed on that node
    store = {}             # msg -> dict(bytes, term, producer_seed, producer_opt, hashed_before, nloads)
    cstore = {}
    digests = {}           # jkey(term) -> {kind: value}
    walk_digests = {}      # jkey(numpy-normalised term) -> first walk digest
    compiled = {}          # (node, c) -> (term, listed)
    compile_outcome = {}   # (jkey(term), tuple(listed)) -> compiled bool
    values = {}            # (jkey(term), tuple(listed), jkey(args)) -> value canon
    restarted = set()
    nontrivial = False
    canon_cache = {}

    def probe(k, n=1):
        probes[k] = probes.get(k, 0) + n

    def viol(cls, detail):
        nonlocal violation
        if violation is None:
            violation = {"cls": cls, "detail": detail}

    def term_canon(t):
        k = jkey(t)
        if k not in canon_cache:
            canon_cache[k] = canon(spec.Builder(extra).build(t))
        return canon_cache[k]

    def node(n):
        if n not in nodes:
            cfg = cfgs[n % len(cfgs)]
            nodes[n] = Node(cfg, base)
            if cfg.get("fresh"):
                probe("fresh_interpreter_nodes")
        return nodes[n]

    def rq(n, d):
        r = node(n).request(d)
        if not r.get("ok"):
            if "missing" in r:
                return None
            raise RuntimeError(f"agent error: {r.get('error')}\n{r.get('tb', '')}")
        if r.get("raised"):
            viol("C17/operation-raised", {"node": n, "hash_seed": node(n).hash_seed,
                                          "O": node(n).optimize, "request": d["op"],
                                          "raised": r["raised"],
                                          "term": d.get("term") or handle_term.get((n, d.get("h")))})
            return None
        return r

    def uses(t, names):
        s = jkey(t)
        return any(('"' + n + '"') in s for n in names)

    try:
        for opi, op in enumerate(scenario["ops"]):
            if violation is not None:
                break
            steps += 1
            k, n = op[0], op[1]
            ev = [opi, k, n]
            if k == "build":
                _, _, h, t = op
                r = rq(n, {"op": "build", "h": h, "term": t})
                if r is not None:
                    handle_term[(n, h)] = t
            elif k == "hash" and len(op) > 3:
                if (n, op[2]) in handle_term:
                    r = rq(n, {"op": "hash", "h": op[2], "frames": op[3]})
                    if r is not None and r.get("exhausted"):
                        faults["stack_exhaustion"] = faults.get("stack_exhaustion", 0) + 1
                    elif r is not None:
                        hashed.add((n, op[2]))
            elif k == "hash":
                if (n, op[2]) in handle_term and rq(n, {"op": "hash", "h": op[2]}) is not None:
                    hashed.add((n, op[2]))
            elif k == "dumps":
                _, _, h, proto, m = op[:5]
                ck = op[5] if len(op) > 5 else None
                if (n, h) in handle_term:
                    r = rq(n, dict({"op": "dumps", "h": h, "proto": proto},
                                   **({"container": ck} if ck else {})))
                    if r is not None:
                        if ck:
                            probe("container_messages")
                        store[m] = {"bytes": r["bytes"], "term": handle_term[(n, h)],
                                    "container": ck,
                                    "seed": node(n).hash_seed, "opt": node(n).optimize,
                                    "hashed_before": (n, h) in hashed, "nloads": 0,
                                    "producer": n, "proto": proto}
                        ev.append(len(r["bytes"]))
            elif k == "loads":
                _, _, m, h = op
                if m in store:
                    s = store[m]
                    r = rq(n, dict({"op": "loads", "h": h, "bytes": s["bytes"], "term": s["term"]},
                                   **({"container": s["container"]} if s.get("container") else {})))
                    if r is None:
                        events.append(ev)
                        continue
                    handle_term[(n, h)] = s["term"]
                    hashed.add((n, h))
                    s["nloads"] += 1
                    if s["nloads"] > 1:
                        faults["duplicate_delivery"] = faults.get("duplicate_delivery", 0) + 1
                        probe("duplicate_deliveries")
                    other_seed = node(n).hash_seed != s["seed"]
                    if other_seed:
                        nontrivial = True
                        probe("loads_other_hash_seed")
                        if s["hashed_before"]:
                            probe("hash_then_dumps_then_loads_other_seed")
                    if bool(node(n).optimize) != bool(s["opt"]):
                        probe("loads_across_O_modes")
                    if n in restarted:
                        probe("loads_after_restart")
                    if uses(s["term"], ["UTag", "UTag3", "UNamed", "UHashless", "UDerived"]):
                        probe("user_class_messages")
                    if uses(s["term"], ["LegacyVar", "LegacyVarX", "PureLegacy", "SubVariable", "SubCall"]):
                        probe("legacy_class_messages")
                    det = {"op": opi, "consumer": n, "producer": s["producer"],
                           "consumer_hash_seed": node(n).hash_seed, "producer_hash_seed": s["seed"],
                           "consumer_O": node(n).optimize, "producer_O": s["opt"],
                           "hashed_before_dumps": s["hashed_before"], "protocol": s["proto"],
                           "term": s["term"], "flags": {kk: r[kk] for kk in r if kk != "ok"}}
                    if s.get("container") and not r.get("container_ok", True):
                        det["container"] = s["container"]
                        viol("C17/loaded-not-found", det)
                    elif not (r["eq"] and r["eq_rev"] and not r["ne"]):
                        viol("C17/loaded-not-equal", det)
                    elif not r["hash_equal"]:
                        viol("C17/loaded-hash-differs", det)
                    elif not (r["in_dict"] and r["in_set"] and r["in_frozenset"]):
                        viol("C17/loaded-not-found", det)
                    elif not (r["canon_equal"] and r["type_equal"]):
                        viol("C17/loaded-canon-differs", det)
                    ev.append([r["eq"], r["hash_equal"], r["in_dict"]])
            elif k == "eq":
                _, _, a, b = op
                if (n, a) in handle_term and (n, b) in handle_term:
                    r = rq(n, {"op": "eq", "a": a, "b": b})
                    if r is None:
                        events.append(ev)
                        continue
                    want = model_eq(term_canon(handle_term[(n, a)]), term_canon(handle_term[(n, b)]))
                    hashed.add((n, a))
                    hashed.add((n, b))
                    if r["eq"] != want or (want and not r["hash_equal"]):
                        viol("C17/eq-mismatch", {"op": opi, "node": n, "got": r, "want": want,
                                                 "a": handle_term[(n, a)], "b": handle_term[(n, b)]})
                    ev.append(r["eq"])
            elif k == "lookup":
                h = op[2]
                if (n, h) in handle_term:
                    r = rq(n, {"op": "lookup", "h": h, "term": handle_term[(n, h)]})
                    if r is None:
                        events.append(ev)
                        continue
                    hashed.add((n, h))
                    if not (r["in_dict"] and r["in_set"] and r["eq"] and r["hash_equal"]):
                        viol("C17/loaded-not-found", {"op": opi, "node": n, "flags": r,
                                                      "term": handle_term[(n, h)]})
            elif k == "digest":
                h = op[2]
                if (n, h) in handle_term:
                    r = rq(n, {"op": "digest", "h": h})
                    # equal expressions have one key: sharing of sub-objects is not structure
                    tk = jkey(spec.expand(handle_term[(n, h)]))
                    if handle_term[(n, h)][0] == "let":
                        probe("digests_of_shared_dags")
                    first = digests.setdefault(tk, {"walk": r["walk"], "keybuilder": r["keybuilder"],
                                                    "node": n, "seed": node(n).hash_seed})
                    probe("digests_compared")
                    # the walk mapper's key is the same for a numpy scalar and the Python
                    # constant it converts to (such expressions are equal)
                    wk = jkey(_np_norm(spec.expand(handle_term[(n, h)])))
                    wfirst = walk_digests.setdefault(wk, {"walk": r["walk"], "term": tk,
                                                          "seed": node(n).hash_seed})
                    if wfirst["walk"] != r["walk"] and wfirst["term"] != tk:
                        probe("numpy_twin_digests_compared")
                        viol("C17/digest-differs", {
                            "op": opi, "kind": "walk (numpy twin)", "term": handle_term[(n, h)],
                            "first": wfirst["walk"], "now": r["walk"]})
                    elif wfirst["term"] != tk:
                        probe("numpy_twin_digests_compared")
                    for kind in ("walk", "keybuilder"):
                        if first[kind] != r[kind]:
                            viol("C17/digest-differs", {
                                "op": opi, "kind": kind, "term": handle_term[(n, h)],
                                "first": first[kind], "first_seed": first["seed"],
                                "now": r[kind], "now_seed": node(n).hash_seed,
                                "now_O": node(n).optimize})
                    ev.append([r["walk"][:12], r["keybuilder"][:12]])
            elif k == "compile":
                _, _, h, listed, c = op[:5]
                how = op[5] if len(op) > 5 else {}
                if (n, h) in handle_term:
                    r = rq(n, dict({"op": "compile", "h": h, "c": c, "vars": listed}, **how))
                    t = handle_term[(n, h)]
                    key = (jkey(t), tuple(listed), how.get("var_class"),
                           bool(how.get("with_context")))
                    first = compile_outcome.setdefault(key, r["compiled"])
                    if first != r["compiled"]:
                        viol("C17/compile-outcome-differs", {"op": opi, "term": t, "vars": listed})
                    if r["compiled"]:
                        compiled[(n, c)] = (t, listed)
                    else:
                        probe("compile_multi_free_unsupported")
                    ev.append(r["compiled"])
            elif k == "call":
                _, _, c, args = op
                if (n, c) in compiled:
                    r = rq(n, {"op": "call", "c": c, "args": args})
                    t, listed = compiled[(n, c)]
                    # (whether compiled code agrees with the evaluator is C13's sentence and a
                    # pure function of the expression; C17 is about the pickle boundary: the
                    # callable must give the same values on every node it travels to)
                    key = (jkey(t), tuple(listed), jkey(args))
                    first = values.setdefault(key, r["value"])
                    if first != r["value"]:
                        viol("C17/compiled-value-differs-across-nodes",
                             {"op": opi, "node": n, "term": t, "vars": listed, "args": args,
                              "first": first, "now": r["value"],
                              "seed": node(n).hash_seed})
                    ev.append(util.digest_of(r["value"])[:8])
            elif k == "cdumps":
                _, _, c, proto, m = op
                if (n, c) in compiled:
                    r = rq(n, {"op": "cdumps", "c": c, "proto": proto})
                    if r is not None and r.get("bytes"):
                        cstore[m] = {"bytes": r["bytes"], "what": compiled[(n, c)],
                                     "seed": node(n).hash_seed}
            elif k == "cloads":
                _, _, m, c = op
                if m in cstore:
                    r = rq(n, {"op": "cloads", "c": c, "bytes": cstore[m]["bytes"]})
                    if not r["loaded"]:
                        viol("C17/compiled-unpickle-failed", {"op": opi, "node": n,
                                                              "exc": r.get("exc"),
                                                              "what": cstore[m]["what"]})
                    else:
                        compiled[(n, c)] = cstore[m]["what"]
                        probe("compiled_roundtrips")
                        if node(n).hash_seed != cstore[m]["seed"]:
                            nontrivial = True
            elif k == "crash":
                if n in nodes:
                    nodes[n].kill()
                    del nodes[n]
                    faults["crash_restart"] = faults.get("crash_restart", 0) + 1
                cfgs[n % len(cfgs)] = dict(op[2])
                for key in [kk for kk in handle_term if kk[0] == n]:
                    del handle_term[key]
                for key in [kk for kk in compiled if kk[0] == n]:
                    del compiled[key]
                hashed = {kk for kk in hashed if kk[0] != n}
                restarted.add(n)
            events.append(ev)
            states.add(util.digest_of([
                sorted((nn, nd.hash_seed, nd.optimize,
                        sum(1 for kk in hashed if kk[0] == nn)) for nn, nd in nodes.items()),
                len(store)])[:10])
    finally:
        for nd in nodes.values():
            nd.kill()
    return {"events": events, "violation": violation, "known": known, "probes": probes,
            "faults": faults, "nontrivial": nontrivial, "steps": steps,
            "states": sorted(states)[:64]}

# }}}


def simplifications(scn):
    ops = scn["ops"]
    cfg = scn["config"]
    for i, op in enumerate(ops):
        if op[0] == "build":
            for s in spec.subterms(op[3]):
                cands = [s] if spec.is_expr_term(s) else (
                    [x for x in s[1] if spec.is_expr_term(x)] if s[0] == "t" else [])
                for c in cands:
                    yield {"config": cfg, "ops": ops[:i] + [["build", op[1], op[2], c]] + ops[i + 1:]}
    for j, nd in enumerate(cfg["nodes"]):
        if nd.get("opt"):
            nc = json.loads(json.dumps(cfg))
            nc["nodes"][j]["opt"] = False
            yield {"config": nc, "ops": ops}
