"""User node classes that every C17 node process can resolve by name when unpickling:
decorated classes, an undecorated subclass of a dataclass node with an extra init arg,
an undecorated subclass without extras, and a pure legacy Expression subclass."""
from __future__ import annotations

import dataclasses
import math

from pymbolic.compiler import CompiledExpression
from pymbolic.primitives import (Call, CommonSubexpression, Expression, Variable,
                                 expr_dataclass)


class UConst:
    """a user constant class (register_constant_class): its hash derives from a string, so it
    differs from one PYTHONHASHSEED to the next, its repr does not"""

    def __init__(self, tag):
        self.tag = tag

    def __eq__(self, other):
        return type(other) is UConst and other.tag == self.tag

    def __ne__(self, other):
        return not self.__eq__(other)

    def __hash__(self):
        return hash(("UConst", self.tag))

    def __repr__(self):
        return f"UConst({self.tag!r})"

    def __getstate__(self):
        return {"tag": self.tag}

    def update_persistent_hash(self, key_hash, key_builder):
        key_builder.rec(key_hash, self.tag)


import pymbolic.primitives as _prim  # noqa: E402

if UConst not in _prim.VALID_CONSTANT_CLASSES:
    _prim.register_constant_class(UConst)


@expr_dataclass()
class UTag(Expression):
    child: object
    tag: str


@expr_dataclass()
class UTag3(UTag):
    extra: object


@expr_dataclass()
class UNamed(Variable):
    index: int


@expr_dataclass(hash=False)
class UHashless(Variable):
    """decorated with hash=False (brings its own __hash__), subclass of a concrete node
    with an added field"""
    tag: object

    def __hash__(self):
        return hash(("UHashless", self.name, self.tag))


@expr_dataclass()
class UDerived(Expression):
    """a field that is not a constructor argument: filled in by __post_init__"""
    child: object
    label: str = dataclasses.field(init=False)

    def __post_init__(self):
        object.__setattr__(self, "label", "lbl" + str(type(self.child).__name__))


@expr_dataclass(init=False)
class UInterval(Expression):
    """init=False with a hand-written constructor that stores its fields in another order
    than they are declared in"""
    lo: object
    hi: object

    def __init__(self, lo, hi):
        object.__setattr__(self, "hi", hi)
        object.__setattr__(self, "lo", lo)


@expr_dataclass()
class UDerivedMid(Expression):
    """a derived (init=False) field that is not the last one: __post_init__ stores it after
    the fields that come behind it in the declaration"""
    child: object
    label: str = dataclasses.field(init=False)
    extra: object

    def __post_init__(self):
        object.__setattr__(self, "label", "mid" + str(type(self.child).__name__))


@expr_dataclass()
class UShift(Expression):
    """__post_init__ translates a constructor argument (it is not idempotent): the offset is
    stored relative to an origin of 2"""
    child: object
    offset: int

    def __post_init__(self):
        object.__setattr__(self, "offset", self.offset + 2)


@expr_dataclass()
class UCse(CommonSubexpression):
    """decorated subclass of the wrapper node with a field of its own; no mapper has
    map_u_cse, dispatch falls back to the wrapper's handler"""
    note: str = "note"


class SubCse(CommonSubexpression):
    """undecorated subclass of the wrapper node that shares its parent's mapper_method"""


class SubVariable(Variable):
    """undecorated subclass that does not even set its own mapper_method: it shares
    'map_variable' with its parent"""


class SubCall(Call):
    """undecorated subclass of a composite node that shares its parent's mapper_method"""


class CompiledWithContext(CompiledExpression):
    """a user subclass of CompiledExpression that supplies extra names to the compiled code"""

    def context(self):
        d = dict(super().context())
        d["sin"] = math.sin
        d["cos"] = math.cos
        return d


@expr_dataclass(hash=False)
class UHashInherit(Variable):
    """hash=False and no __hash__ of its own: it keeps the caching hash it inherits"""
    label: str


class LegacyVar(Variable):
    """undecorated subclass of a dataclass node, no extra state"""
    mapper_method = "map_legacy_var"


class LegacyVarX(Variable):
    """undecorated subclass of a dataclass node with an extra init arg"""
    init_arg_names = ("name", "extra")

    def __init__(self, name, extra):
        super().__init__(name)
        object.__setattr__(self, "extra", extra)

    def __getinitargs__(self):
        return (self.name, self.extra)

    mapper_method = "map_legacy_var_x"


class LegacyVarX2(LegacyVarX):
    """a further subclass that only inherits the init-args hooks of its legacy parent"""
    mapper_method = "map_legacy_var_x2"


class PureLegacyList(Expression):
    """legacy node that keeps one init arg as a list (and therefore brings its own hash)"""
    init_arg_names = ("tag", "items")

    def __init__(self, tag, items):
        self.tag = tag
        self.items = list(items)

    def __getinitargs__(self):
        return (self.tag, self.items)

    def get_hash(self):
        return hash((type(self).__name__, self.tag, tuple(self.items)))

    mapper_method = "map_pure_legacy_list"


class PureLegacy(Expression):
    """legacy subclass that still uses the init-args protocol"""
    init_arg_names = ("u", "v")

    def __init__(self, u, v):
        self.u = u
        self.v = v

    def __getinitargs__(self):
        return (self.u, self.v)

    mapper_method = "map_pure_legacy"


class PureLegacy3(PureLegacy):
    """a legacy class derived from another legacy class, with one more init arg"""
    init_arg_names = ("u", "v", "w")

    def __init__(self, u, v, w):
        PureLegacy.__init__(self, u, v)
        self.w = w

    def __getinitargs__(self):
        return (self.u, self.v, self.w)

    mapper_method = "map_pure_legacy3"


@expr_dataclass()
class UVarSet(Variable):
    """a Variable subclass with a set-valued field"""
    tags: frozenset


USER_CLASSES = {"UTag": UTag, "UTag3": UTag3, "UNamed": UNamed, "UHashless": UHashless,
                "UDerived": UDerived, "SubVariable": SubVariable, "SubCall": SubCall,
                "UHashInherit": UHashInherit, "UInterval": UInterval,
                "UDerivedMid": UDerivedMid, "UCse": UCse, "SubCse": SubCse, "UShift": UShift,
                "LegacyVar": LegacyVar,
                "LegacyVarX": LegacyVarX, "LegacyVarX2": LegacyVarX2, "PureLegacy": PureLegacy,
                "PureLegacyList": PureLegacyList, "PureLegacy3": PureLegacy3,
                "UVarSet": UVarSet}
USER_FIELDS = {"UTag": ["e", "s"], "UTag3": ["e", "s", "any"], "UNamed": ["s", "ci"],
               "UHashless": ["s", "any"], "UDerived": ["e"], "SubVariable": ["s"],
               "SubCall": ["e", "E0"], "UHashInherit": ["s", "s"],
               "UInterval": ["e", "any"], "UDerivedMid": ["e", "any"],
               "UCse": ["e", "px", "sc", "s"], "SubCse": ["e", "px", "sc"], "UShift": ["e", "ci"],
               "LegacyVar": ["s"], "LegacyVarX": ["s", "any"], "LegacyVarX2": ["s", "any"],
               "PureLegacy": ["any", "any"], "PureLegacyList": ["s", "E0"],
               "PureLegacy3": ["any", "any", "any"], "UVarSet": ["s", "FS"]}
