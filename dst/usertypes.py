"""User node classes that every C17 node process can resolve by name when unpickling:
decorated classes, an undecorated subclass of a dataclass node with an extra init arg,
an undecorated subclass without extras, and a pure legacy Expression subclass."""
from __future__ import annotations

from pymbolic.primitives import Expression, Variable, expr_dataclass


@expr_dataclass()
class UTag(Expression):
    child: object
    tag: str


@expr_dataclass()
class UTag3(UTag):
    extra: object


@expr_dataclass()
class UNamed(Variable):
    index: int


@expr_dataclass(hash=False)
class UHashless(Variable):
    """decorated with hash=False (brings its own __hash__), subclass of a concrete node
    with an added field"""
    tag: object

    def __hash__(self):
        return hash(("UHashless", self.name, self.tag))


class LegacyVar(Variable):
    """undecorated subclass of a dataclass node, no extra state"""
    mapper_method = "map_legacy_var"


class LegacyVarX(Variable):
    """undecorated subclass of a dataclass node with an extra init arg"""
    init_arg_names = ("name", "extra")

    def __init__(self, name, extra):
        super().__init__(name)
        object.__setattr__(self, "extra", extra)

    def __getinitargs__(self):
        return (self.name, self.extra)

    mapper_method = "map_legacy_var_x"


class PureLegacy(Expression):
    """legacy subclass that still uses the init-args protocol"""
    init_arg_names = ("u", "v")

    def __init__(self, u, v):
        self.u = u
        self.v = v

    def __getinitargs__(self):
        return (self.u, self.v)

    mapper_method = "map_pure_legacy"


USER_CLASSES = {"UTag": UTag, "UTag3": UTag3, "UNamed": UNamed, "UHashless": UHashless,
                "LegacyVar": LegacyVar,
                "LegacyVarX": LegacyVarX, "PureLegacy": PureLegacy}
USER_FIELDS = {"UTag": ["e", "s"], "UTag3": ["e", "s", "any"], "UNamed": ["s", "ci"],
               "UHashless": ["s", "any"],
               "LegacyVar": ["s"], "LegacyVarX": ["s", "any"], "PureLegacy": ["any", "any"]}
