"""Run-time support shared by simulator-owned mapper subclasses and fakes:
fault points driven by the run's fault plan."""
from __future__ import annotations

from .util import InjectedFault


class SimState:
    """Per-instance (or per-fake) fault point counter.  ``arm(site, nth)`` makes the
    nth hit of ``site`` from now on raise InjectedFault, once."""

    def __init__(self):
        self.counts = {}
        self.armed = None
        self.fired = 0
        self.total_hits = 0

    def arm(self, site, nth, exc=InjectedFault):
        self.armed = [site, int(nth), exc]
        self.counts = {}

    def disarm(self):
        self.armed = None

    def hit(self, site):
        self.total_hits += 1
        a = self.armed
        if a is None or a[0] != site:
            return
        n = self.counts.get(site, 0) + 1
        self.counts[site] = n
        if n == a[1]:
            self.armed = None
            self.fired += 1
            raise a[2](f"injected at {site}#{n}")


def hook(self, site):
    sim = self.__dict__.get("_sim")
    if sim is not None:
        sim.hit(site)


class FakeFunction:
    """A function bound in an evaluation context: logs its calls, returns an
    injective-looking arithmetic combination of its arguments, raises on plan."""

    def __init__(self, name, sim, log, coeffs=(3, 5, 7, 11)):
        self.name, self.sim, self.log, self.coeffs = name, sim, log, coeffs

    def __call__(self, *args, **kwargs):
        self.log.append((self.name, args, tuple(sorted(kwargs.items()))))
        self.sim.hit("env:" + self.name)
        if self.coeffs is None:
            return None          # a function whose value is None is still a value
        acc = self.coeffs[-1] + len(self.name)
        for i, a in enumerate(args):
            if a is None:
                a = 0
            acc = acc + self.coeffs[i % 3] * a
        for _, v in sorted(kwargs.items()):
            acc = acc + 13 * v
        return acc
