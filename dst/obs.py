"""Handler-level observation through sys.setprofile (DESIGN.md 2.4).

For a set of watched mapper instances it records every *computation start*: entry
of a ``map_*`` frame whose ``self`` is a watched instance, unless the innermost live
handler frame of the same instance already works on the same (expr object, extra
arguments) -- that is a handler delegating to another handler for the same node
(map_variable -> map_algebraic_leaf, map_foreign -> map_constant, super().map_call).
It works unchanged for classes rewritten by optimize_mapper(inline_rec=True), where
dispatch no longer goes through ``rec``.  No pymbolic source is modified.
"""
from __future__ import annotations

import sys

from .util import canon, jkey

CO_VARARGS = 0x04
CO_VARKEYWORDS = 0x08


class Computation:
    __slots__ = ("inst", "handler", "expr", "key", "frame", "seq", "parent")

    def __init__(self, inst, handler, expr, key, frame, seq, parent=None):
        self.inst, self.handler, self.expr = inst, handler, expr
        self.key, self.frame, self.seq = key, frame, seq
        self.parent = parent     # the computation (of the same instance) this one started in


class HandlerObserver:
    def __init__(self):
        self.watched = {}       # id(instance) -> label
        self._keep = []         # keeps watched instances and seen exprs alive
        self.stack = []         # [(frame, inst_id, id(expr), argkey, Computation)]
        self.log = []           # Computation objects, in start order
        self.memo = {}          # canon memo (holds object refs)
        self.active = False
        self.calls = 0
        # handler names that are logged even when reached by delegation
        self.always = {"map_common_subexpression_uncached"}

    def watch(self, inst, label):
        self.watched[id(inst)] = label
        self._keep.append(inst)

    # -- profile function ---------------------------------------------------
    def _prof(self, frame, event, arg):
        if event == "call":
            code = frame.f_code
            name = code.co_name
            if name[:4] != "map_":
                return
            nargs = code.co_argcount
            if nargs < 2:
                return
            vn = code.co_varnames
            loc = frame.f_locals
            slf = loc.get(vn[0])
            iid = id(slf)
            label = self.watched.get(iid)
            if label is None:
                return
            expr = loc.get(vn[1])
            extra = [loc.get(n) for n in vn[2:nargs]]
            pos = nargs + code.co_kwonlyargcount
            kw = {n: loc.get(n) for n in vn[nargs:pos]}
            flags = code.co_flags
            if flags & CO_VARARGS:
                extra += list(loc.get(vn[pos], ()))
                pos += 1
            if flags & CO_VARKEYWORDS:
                kw.update(loc.get(vn[pos], {}))
            argkey = jkey([canon(tuple(extra), self.memo), canon(kw, self.memo)])
            st = self.stack
            parent = None
            for k in range(len(st) - 1, -1, -1):
                if st[k][1] == iid:
                    parent = st[k][4]
                    if st[k][2] == id(expr) and st[k][3] == argkey:
                        # delegation for the same node: not a new computation
                        if name in self.always:
                            key = jkey([canon(expr, self.memo), argkey])
                            c = Computation(label, name, expr, key, frame, len(self.log),
                                            parent)
                            self.log.append(c)
                            st.append((frame, iid, id(expr), argkey, c))
                        else:
                            st.append((frame, iid, id(expr), argkey, parent))
                        return
                    break
            self._keep.append(expr)
            self.calls += 1
            key = jkey([canon(expr, self.memo), argkey])
            c = Computation(label, name, expr, key, frame, len(self.log), parent)
            st.append((frame, iid, id(expr), argkey, c))
            self.log.append(c)
        elif event == "return":
            st = self.stack
            if st and st[-1][0] is frame:
                st.pop()

    def start(self):
        self.active = True
        sys.setprofile(self._prof)

    def stop(self):
        sys.setprofile(None)
        self.active = False
        self.stack.clear()

    # -- helpers ---------------------------------------------------------------
    def mark(self):
        return len(self.log)

    def since(self, mark):
        return self.log[mark:]

    @staticmethod
    def frames_of_traceback(exc):
        fr = set()
        seen = set()
        e = exc
        while e is not None and id(e) not in seen:
            seen.add(id(e))
            tb = e.__traceback__
            while tb is not None:
                fr.add(id(tb.tb_frame))
                tb = tb.tb_next
            e = e.__context__ if e.__cause__ is None else e.__cause__
        return fr

    def release_frames(self, mark=0):
        for c in self.log[mark:]:
            c.frame = None
            c.parent = None
