"""Closed JSON expression specs ("terms"), the builder that turns them into live
pymbolic objects, and a seeded term generator.

term :=  ["i", n] | ["f", "4.0"] | ["b", true] | ["np", "int64", "4"] | ["c", "1.0", "2.0"]
       | ["fr", n, d] | ["s", "text"] | ["none"] | ["ty", "float"]
       | ["t", [term...]]                 tuple
       | ["im", [[key, term]...]]         immutabledict
       | ["d",  [[key, term]...]]         plain dict (deprecated spelling for kw_parameters)
       | ["r", name]                      the *identical* object bound to name
       | ["fresh", name]                  an equal-but-not-identical rebuild of name's term
       | ["n", clsname, [term...]]        node; clsname resolved in the class registry
       | ["let", [[name, term]...], body] local definitions, then body: ["r", name] inside body
                                          gives the identical object each time (a DAG)

A reference to a name that is not defined resolves to Variable("_undef"), so every
subsequence of a list of definitions is itself a valid list.
"""
from __future__ import annotations

from fractions import Fraction

# field kinds per built-in node class, used by the generator
#   e = expression term, E = tuple of 2..3 expression terms, s = identifier string,
#   S = tuple of identifier strings, op = comparison operator, kw = keyword mapping,
#   sl = slice children, px = CSE prefix, sc = CSE scope, ty = NaN data_type
NODE_FIELDS = {
    "Variable": ["s"], "Wildcard": [], "DotWildcard": ["s"], "StarWildcard": ["s"],
    "FunctionSymbol": [],
    "Call": ["e", "E0"], "CallWithKwargs": ["e", "E0", "kw"],
    "Subscript": ["e", "e_or_t"], "Lookup": ["e", "s"],
    "Sum": ["E"], "Product": ["E"],
    "Quotient": ["e", "e"], "FloorDiv": ["e", "e"], "Remainder": ["e", "e"],
    "Power": ["e", "e"],
    "LeftShift": ["e", "e"], "RightShift": ["e", "e"],
    "BitwiseNot": ["e"], "BitwiseOr": ["E"], "BitwiseXor": ["E"], "BitwiseAnd": ["E"],
    "Comparison": ["e", "op", "e"],
    "LogicalNot": ["e"], "LogicalOr": ["E"], "LogicalAnd": ["E"],
    "If": ["e", "e", "e"], "Min": ["E"], "Max": ["E"],
    "CommonSubexpression": ["e", "px", "sc"],
    "Substitution": ["e", "S", "E1"], "Derivative": ["e", "S"],
    "Slice": ["sl"], "NaN": ["ty"],
}
ALL_BUILTIN = sorted(NODE_FIELDS)

OPS = ["==", "!=", "<", "<=", ">", ">="]
IDENTS = ["x", "y", "z", "u", "v", "w"]
SCOPES = ["pymbolic_eval", "pymbolic_expr", "pymbolic_global"]
DTYPES = ["none", "float", "float32", "float64"]


def _dtype(name):
    import numpy as np
    return {"none": None, "float": float, "float32": np.float32,
            "float64": np.float64, "complex": complex}[name]


class Builder:
    def __init__(self, extra_classes=None):
        import pymbolic.primitives as p
        self.p = p
        self.classes = {n: getattr(p, n) for n in NODE_FIELDS}
        try:
            from pymbolic.geometric_algebra.primitives import MultiVectorVariable
            self.classes["MultiVectorVariable"] = MultiVectorVariable
        except ImportError:
            pass
        if extra_classes:
            self.classes.update(extra_classes)
        self.defs = {}   # name -> (term, obj)

    def define(self, name, term):
        obj = self.build(term)
        self.defs[name] = (term, obj)
        return obj

    def get(self, name):
        d = self.defs.get(name)
        if d is None:
            return self.p.Variable("_undef")
        return d[1]

    def term_of(self, name):
        d = self.defs.get(name)
        if d is None:
            return ["n", "Variable", [["s", "_undef"]]]
        return d[0]

    def build(self, t, fresh=False):
        k = t[0]
        if k == "i":
            return int(t[1])
        if k == "f":
            return float(t[1])
        if k == "b":
            return bool(t[1])
        if k == "np":
            import numpy as np
            import ast
            return getattr(np, t[1])(ast.literal_eval(t[2]))
        if k == "c":
            return complex(float(t[1]), float(t[2]))
        if k == "fr":
            return Fraction(int(t[1]), int(t[2]))
        if k == "fs":
            return frozenset(t[1])          # a frozenset of strings
        if k == "nstr":
            import numpy as np
            return np.str_(t[1])     # a str subclass instance (names taken from a numpy array)
        if k == "s":
            # not interned on purpose: equal-but-not-identical strings are part of the game
            return "".join(list(t[1]))
        if k == "none":
            return None
        if k == "ty":
            return _dtype(t[1])
        if k == "t":
            return tuple(self.build(x, fresh) for x in t[1])
        if k == "im":
            from immutabledict import immutabledict
            return immutabledict({kk: self.build(v, fresh) for kk, v in t[1]})
        if k == "d":
            return {kk: self.build(v, fresh) for kk, v in t[1]}
        if k == "mp":
            # a read-only view of a dict: advertises __hash__, cannot actually be hashed
            import types
            return types.MappingProxyType({kk: self.build(v, fresh) for kk, v in t[1]})
        if k == "uc":
            from dst.usertypes import UConst
            return UConst(t[1])
        if k == "r":
            if fresh:
                return self.build(self.term_of(t[1]), True)
            return self.get(t[1])
        if k == "fresh":
            return self.build(self.term_of(t[1]), True)
        if k == "n":
            cls = self.classes.get(t[1])
            if cls is None:
                return self.p.Variable("_nocls_" + str(t[1]))
            args = [self.build(x, fresh) for x in t[2]]
            return cls(*args)
        if k == "wide":
            # ["wide", cls, k, shared]: cls((S, t_1 .. t_k, S')) with k distinct operands between
            # two equal-but-not-identical builds of the shared term: more distinct keys than any
            # plausible cache bound, then a key from the very beginning again
            cls = self.classes[t[1]]
            s1 = self.build(t[3], fresh)
            s2 = self.build(t[3], True)
            x = self.p.Variable("x")
            mid = tuple(self.p.Product((i + 2, x)) for i in range(int(t[2])))
            return cls((s1, *mid, s2))
        if k == "let":
            saved = dict(self.defs)
            try:
                for name, sub in t[1]:
                    self.defs[name] = (sub, self.build(sub, fresh))
                return self.build(t[2], fresh)
            finally:
                self.defs = saved
        raise ValueError(f"bad term {t!r}")


def expand(t, env=None):
    """The term with every local definition inlined (no sharing)."""
    env = env or {}
    k = t[0]
    if k == "let":
        e2 = dict(env)
        for name, sub in t[1]:
            e2[name] = expand(sub, e2)
        return expand(t[2], e2)
    if k in ("r", "fresh") and t[1] in env:
        return env[t[1]]
    if k == "n":
        return ["n", t[1], [expand(x, env) for x in t[2]]]
    if k == "t":
        return ["t", [expand(x, env) for x in t[1]]]
    if k in ("im", "d", "mp"):
        return [k, [[kk, expand(v, env)] for kk, v in t[1]]]
    return t


def subterms(t):
    """Direct child terms of a term (for shrinking)."""
    k = t[0]
    if k == "n":
        return list(t[2])
    if k == "t":
        return list(t[1])
    if k in ("im", "d", "mp"):
        return [v for _, v in t[1]]
    if k == "let":
        return [expand(t)]
    return []


def is_expr_term(t):
    return t[0] in ("n", "r", "fresh", "let", "wide")


# {{{ generator

class TermGen:
    """Seeded generator of terms.  All choices come from the one PRNG passed in."""

    def __init__(self, rng, *, classes=None, idents=None, max_depth=4,
                 const_kinds=("i",), const_values=(0, 1, 2, 3, 4, 7, -1, -2),
                 pool=None, p_ref=0.25, p_fresh=0.15, p_leaf=0.3,
                 leaf_classes=("Variable",), weights=None):
        self.rng = rng
        self.classes = list(classes or ["Variable", "Sum", "Product", "Quotient",
                                        "Power", "Call"])
        self.idents = list(idents or IDENTS)
        self.max_depth = max_depth
        self.const_kinds = list(const_kinds)
        self.const_values = list(const_values)
        self.pool = pool if pool is not None else []   # names usable in refs
        self.p_ref, self.p_fresh, self.p_leaf = p_ref, p_fresh, p_leaf
        self.leaf_classes = list(leaf_classes)
        self.weights = weights

    def const(self, kind=None, value=None):
        r = self.rng
        kind = kind or r.choice(self.const_kinds)
        v = r.choice(self.const_values) if value is None else value
        if kind == "i":
            return ["i", int(v)]
        if kind == "f":
            return ["f", repr(float(v))]
        if kind == "b":
            return ["b", bool(v)]
        if kind == "npi":
            return ["np", "int64", repr(int(v))]
        if kind == "npb":
            return ["np", "bool_", repr(bool(v))]
        if kind == "npf":
            if r.random() < 0.15:
                return ["np", "float64", r.choice(["0.0", "-0.0"])]     # signed zeros
            return ["np", "float64", repr(float(v))]
        if kind == "c":
            return ["c", repr(float(v)), "1.0"]
        if kind == "uc":
            return ["uc", r.choice(["alpha", "beta"])]
        raise ValueError(kind)

    def leaf(self):
        r = self.rng
        if r.random() < 0.45:
            return self.const()
        c = r.choice(self.leaf_classes)
        return self.node(c, self.max_depth)

    def term(self, depth=0):
        r = self.rng
        if self.pool and r.random() < self.p_ref:
            return ["r", r.choice(self.pool)]
        if self.pool and r.random() < self.p_fresh:
            return ["fresh", r.choice(self.pool)]
        if depth >= self.max_depth or r.random() < self.p_leaf * (depth > 0):
            return self.leaf()
        if self.weights:
            c = r.choices(self.classes, weights=self.weights)[0]
        else:
            c = r.choice(self.classes)
        return self.node(c, depth)

    def exprs(self, depth, lo, hi):
        n = self.rng.randint(lo, hi)
        return ["t", [self.term(depth + 1) for _ in range(n)]]

    def field(self, kind, depth):
        r = self.rng
        if kind == "e":
            return self.term(depth + 1)
        if kind == "E":
            if self.allow_short and r.random() < 0.06:
                return self.exprs(depth, 0, 1)      # empty / single-operand sums etc.
            return self.exprs(depth, 2, 3)
        if kind == "E0":
            return self.exprs(depth, 0, 2)
        if kind == "E1":
            return self.exprs(depth, 1, 2)
        if kind == "e_or_t":
            return self.term(depth + 1) if r.random() < 0.6 else self.exprs(depth, 1, 2)
        if kind == "s":
            return ["s", r.choice(self.idents)]
        if kind == "S":
            return ["t", [["s", r.choice(self.idents)] for _ in range(r.randint(1, 2))]]
        if kind == "op":
            return ["s", r.choice(OPS)]
        if kind == "kw":
            keys = r.sample(["a", "b", "c"], r.randint(1, 3))
            return ["im", [[k, self.term(depth + 1)] for k in keys]]
        if kind == "sl":
            n = r.randint(0, 3)
            return ["t", [(["none"] if r.random() < 0.3 else self.term(depth + 1))
                          for _ in range(n)]]
        if kind == "px":
            return ["none"] if r.random() < 0.5 else ["s", r.choice(["u", "v", "tmp"])]
        if kind == "sc":
            return ["s", r.choice(SCOPES)]
        if kind == "ty":
            return ["ty", r.choice(DTYPES)]
        raise ValueError(kind)

    def node(self, cls, depth):
        kinds = NODE_FIELDS.get(cls)
        if kinds is None:
            kinds = self.extra_fields[cls]
        return ["n", cls, [self.field(k, depth) for k in kinds]]

    extra_fields: dict = {}
    allow_short = False

# }}}


# {{{ hash-colliding variants

# pymbolic hashes a node as the tuple of its fields, without the class: nodes of different
# classes with the same fields have equal hashes (legitimately -- they are unequal), and so
# do -1 and -2 in CPython.  Variants built this way are unequal twins with *equal hashes*:
# exactly what a cache keyed on hash(expr), or an __eq__ that trusts the hash, conflates.
SWAP_GROUPS = [
    ["Sum", "Product", "Min", "Max", "LogicalAnd", "LogicalOr", "BitwiseOr", "BitwiseXor",
     "BitwiseAnd"],
    ["Quotient", "FloorDiv", "Remainder", "Power", "LeftShift", "RightShift"],
    ["BitwiseNot", "LogicalNot"],
]


def collide_variant(r, t, allowed=None, nested_only=False):
    """A copy of term t that differs in the class of one node (same field shape) or in one
    -1/-2 constant; None if t offers no such position."""
    import copy
    paths = []

    def walk(x, path, depth):
        k = x[0]
        if k == "n":
            if not (nested_only and depth == 0):
                for g in SWAP_GROUPS:
                    if x[1] in g and any(c != x[1] and (allowed is None or c in allowed)
                                         for c in g):
                        paths.append(("cls", path))
            for j, c in enumerate(x[2]):
                walk(c, path + [2, j], depth + 1)
        elif k == "t":
            for j, c in enumerate(x[1]):
                walk(c, path + [1, j], depth)
        elif k == "i" and x[1] in (-1, -2):
            paths.append(("const", path))

    walk(t, [], 0)
    if not paths:
        return None
    kind, path = r.choice(paths)
    t2 = copy.deepcopy(t)
    node = t2
    for step in path:
        node = node[step]
    if kind == "const":
        node[1] = -3 - node[1]       # -1 <-> -2
    else:
        for g in SWAP_GROUPS:
            if node[1] in g:
                node[1] = r.choice([c for c in g if c != node[1]
                                    and (allowed is None or c in allowed)])
                break
    return t2

# }}}
