"""Sensitivity self-test: apply one catalogue mutant at a time to a scratch copy of
/repo/pymbolic (under $TMPDIR, removed right afterwards) and run the property's check
against it through VERIF_REPO.  Every mutant must produce a VIOLATION; the unmodified
tree must produce none.  Development/thorough-tier tool, not part of the quick checks.

usage: python -m dst.mutants [--prop C05] [--id name ...] [--runs N] [-j 4]
"""
from __future__ import annotations

import argparse
import concurrent.futures as cf
import os
import shutil
import subprocess
import sys
import tempfile

VERIF_DIR = os.path.dirname(os.path.dirname(os.path.abspath(__file__)))
REPO = "/repo"

PRIM = "pymbolic/primitives.py"
MAP = "pymbolic/mapper/__init__.py"
OPT = "pymbolic/mapper/optimize.py"
CC = "pymbolic/mapper/c_code.py"
STR = "pymbolic/mapper/stringifier.py"
CSE = "pymbolic/cse.py"
EV = "pymbolic/mapper/evaluator.py"
PH = "pymbolic/mapper/persistent_hash.py"
COMP = "pymbolic/compiler.py"
SUB = "pymbolic/mapper/substitutor.py"

# (id, property, file, old, new, what)
MUTANTS = [
    # ---------------- C01
    ("c01-eq-drops-last-field", "C01", PRIM,
     '''    comparison = " and ".join(
            f"self.{fld.name} == other.{fld.name}"
            for fld in fields(cls))''',
     '''    comparison = " and ".join(
            f"self.{fld.name} == other.{fld.name}"
            for fld in fields(cls)[:max(1, len(fields(cls)) - 1)])''',
     "generated __eq__ ignores the last field of multi-field nodes"),
    ("c01-eq-trusts-hash", "C01", PRIM,
     "            return self.__class__ == other.__class__ and {comparison}",
     "            return True",
     "generated __eq__ trusts hash equality alone (-1/-2 family)"),
    ("c01-hash-mixes-type", "C01", PRIM,
     "                hash_val = hash({attr_tuple})",
     "                hash_val = hash(({attr_tuple}, tuple(type(x).__name__ for x in {attr_tuple})))",
     "hash mixes in the type of direct constant fields (1 vs 1.0 hash differently)"),
    ("c01-not-frozen", "C01", PRIM,
     "dc_cls = dataclass(init=init, eq=False, frozen=__debug__, repr=False)(cls)",
     "dc_cls = dataclass(init=init, eq=False, frozen=False, repr=False)(cls)",
     "dataclasses are no longer frozen"),
    ("c01-kwargs-left-unfrozen", "C01", PRIM,
     '''            object.__setattr__(self, "kw_parameters", immutabledict(self.kw_parameters))''',
     '''            pass''',
     "CallWithKwargs leaves a dict unfrozen (unhashable node)"),
    ("c01-comparison-op-not-normalised", "C01", PRIM,
     '''                object.__setattr__(
                        self, "operator", self.name_to_operator[self.operator])''',
     '''                pass''',
     "deprecated operator names are no longer normalised"),
    ("c01-hash-salted-and-copied", "C01", PRIM,
     '''            for name, value in zip({fld_name_tuple}, state):
                object.__setattr__(self, name, value)

        cls.__setstate__ = {cls.__name__}_setstate''',
     '''            for name, value in zip({fld_name_tuple}, state):
                object.__setattr__(self, name, value)
            object.__setattr__(self, "_hash_value", 12345)

        cls.__setstate__ = {cls.__name__}_setstate''',
     "unpickled/copied objects get a bogus cached hash"),
    ("c01-nan-ieee", "C01", PRIM,
     '''        def {cls.__name__}_eq(self, other):
            if self is other:
                return True''',
     '''        def {cls.__name__}_eq(self, other):
            if type(self).__name__ == "NaN":
                return False
            if self is other:
                return True''',
     "NaN node made IEEE-like (never equal, not even to itself)"),
    ("c01-legacy-backend-first-arg-only", "C01", PRIM,
     '''        return (type(other) is type(self)
                and self.__getinitargs__() == other.__getinitargs__())

    def get_hash(self) -> int:
        return hash((type(self).__name__, *self.__getinitargs__()))''',
     '''        return (type(other) is type(self)
                and self.__getinitargs__()[:1] == other.__getinitargs__()[:1])

    def get_hash(self) -> int:
        return hash((type(self).__name__, *self.__getinitargs__()[:1]))''',
     "legacy is_equal/get_hash look at the first init arg only"),
    ("c01-hash-placeholder-race", "C01", PRIM,
     '''                hash_val = hash({attr_tuple})

            object.__setattr__(self, "_hash_value", hash_val)''',
     '''                object.__setattr__(self, "_hash_value", 0)
                hash_val = hash({attr_tuple})

            object.__setattr__(self, "_hash_value", hash_val)''',
     "hash cache is written with a placeholder before the value is known: only an "
     "interleaving or an interrupt between the two writes can observe it"),
    ("c01-eq-fastpath-on-cached-hash-only", "C01", PRIM,
     '''            if hash(self) != hash(other):
                return False
            if self.__class__ is not cls and''',
     '''            if getattr(self, "_hash_value", None) is not None and getattr(
                    other, "_hash_value", None) is not None:
                return self._hash_value == other._hash_value
            if self.__class__ is not cls and''',
     "== trusts two already cached hashes (wrong only after both sides were hashed: "
     "history dependent)"),
    ("c01-hash-placeholder-interrupt-safe", "C01", PRIM,
     '''                hash_val = hash({attr_tuple})

            object.__setattr__(self, "_hash_value", hash_val)''',
     '''                object.__setattr__(self, "_hash_value", 0)
                try:
                    hash_val = hash({attr_tuple})
                finally:
                    object.__delattr__(self, "_hash_value")

            object.__setattr__(self, "_hash_value", hash_val)''',
     "like the placeholder race, but the placeholder is removed in a finally: an interrupt "
     "leaves nothing behind, only a second thread pre-empting between the two writes sees it"),
    # ---------------- C05
    ("c05-key-drops-args", "C05", MAP,
     "return (type(expr), expr, args, immutabledict(kwargs))",
     "return (type(expr), expr, immutabledict(kwargs))",
     "cache key ignores positional extra arguments"),
    ("c05-key-drops-kwargs", "C05", MAP,
     "return (type(expr), expr, args, immutabledict(kwargs))",
     "return (type(expr), expr, args)",
     "cache key ignores keyword extra arguments"),
    ("c05-key-drops-type", "C05", MAP,
     "return (type(expr), expr, args, immutabledict(kwargs))",
     "return (expr, args, immutabledict(kwargs))",
     "cache key has no type(expr): 4, 4.0 and True share an entry"),
    ("c05-cse-key-drops-args", "C05", MAP,
     "        key = (expr, *args)\n",
     "        key = expr\n",
     "CSE mix-in key ignores extra arguments"),
    ("c05-store-in-finally", "C05", MAP,
     '''                result = method(expr, *args, **kwargs)
                self._cache[cache_key] = result
                return result

        result = self.rec_fallback(expr, *args, **kwargs)''',
     '''                result = None
                try:
                    result = method(expr, *args, **kwargs)
                finally:
                    self._cache[cache_key] = result
                return result

        result = self.rec_fallback(expr, *args, **kwargs)''',
     "result slot is stored in a finally: an exception leaves None cached"),
    ("c05-class-level-cache", "C05", MAP,
     '''    def __init__(self):
        self._cache: dict[Any, Any] = {}
        Mapper.__init__(self)''',
     '''    _cache: dict[Any, Any] = {}

    def __init__(self):
        Mapper.__init__(self)''',
     "_cache is a class attribute shared by all instances"),
    ("c05-inlined-key-loses-kwargs", "C05", OPT,
     """        elif isinstance(stmt, ast.Return):
            return stmt.value""",
     """        elif isinstance(stmt, ast.Return):
            v = stmt.value
            if isinstance(v, ast.Tuple):
                v = ast.Tuple(elts=[e for e in v.elts if not (
                    isinstance(e, ast.Call) and getattr(e.func, "id", "") == "immutabledict")],
                    ctx=ast.Load())
            return v""",
     "with inline_get_cache_key=True the inlined key expression loses its kwargs component: "
     "only rewritten classes that are called with keyword extras are affected"),
    ("c05-inline-cache-never-stores", "C05", OPT,
     '''def _set_and_return(mapping, key, value):
    mapping[key] = value
    return value''',
     '''def _set_and_return(mapping, key, value):
    return value''',
     "inlined cache never stores (at-most-once fails for inline_cache classes)"),
    ("c05-inline-key-expr-only", "C05", OPT,
     "                cache_key_expr = ast.Tuple([expr_type, expr], ctx=Load())",
     "                cache_key_expr = ast.Tuple([expr], ctx=Load())",
     "inlined cache key drops type(expr)"),
    ("c05-cached-subst-bypass", "C05", SUB,
     '''class CachedSubstitutionMapper(CachedIdentityMapper,
                               SubstitutionMapper):
    def __init__(self, subst_func):
        CachedIdentityMapper.__init__(self)
        SubstitutionMapper.__init__(self, subst_func)''',
     '''class CachedSubstitutionMapper(CachedIdentityMapper,
                               SubstitutionMapper):
    def __init__(self, subst_func):
        CachedIdentityMapper.__init__(self)
        SubstitutionMapper.__init__(self, subst_func)

    def map_sum(self, expr, *args, **kwargs):
        return SubstitutionMapper.map_sum(self, expr, *args, **kwargs)

    def rec(self, expr, *args, **kwargs):
        import pymbolic.primitives as p
        if isinstance(expr, p.Product):
            return SubstitutionMapper.__call__(self, expr, *args, **kwargs)
        return self(expr, *args, **kwargs)''',
     "CachedSubstitutionMapper bypasses the cache for products"),
    ("c05-revert-d5-fix", "C05", OPT,
     "                method_ast = deepcopy(_get_ast_for_method(method))",
     "                method_ast = _get_ast_for_method(method)",
     "the fixed defect D5 (optimizer mutates cached ASTs in place) comes back"),
    ("c05-cached-eval-ignores-context-change", "C05", EV,
     '''class CachedEvaluationMapper(CachedMapper, EvaluationMapper):
    def __init__(self, context=None):
        CachedMapper.__init__(self)
        EvaluationMapper.__init__(self, context=context)''',
     '''_SHARED = {}


class CachedEvaluationMapper(CachedMapper, EvaluationMapper):
    def __init__(self, context=None):
        CachedMapper.__init__(self)
        EvaluationMapper.__init__(self, context=context)
        self._cache = _SHARED''',
     "all CachedEvaluationMapper instances share one cache regardless of context"),
    # ---------------- C14
    ("c14-namegen-ignores-taken", "C14", CC,
     """                if cse_name not in self.cse_names:
                    break""",
     """                if True:
                    break""",
     "name generator ignores names already in use"),
    ("c14-append-before-child", "C14", CC,
     [("""            cse_str = self.rec(expr.child, PREC_NONE)
""", """            _slot = len(self.cse_name_list)
            cse_str = self.rec(expr.child, PREC_NONE)
"""), ("""            self.cse_name_list.append((cse_name, cse_str))""",
       """            self.cse_name_list.insert(_slot, (cse_name, cse_str))""")], None,
     "assignment inserted where the list ended before the child was printed: nested "
     "wrappers are used before they are assigned"),
    ("c14-cse-to-name-not-updated", "C14", CC,
     "            self.cse_to_name[expr.child] = cse_name\n",
     "            pass\n",
     "cse_to_name not updated: every occurrence is assigned again"),
    ("c14-copy-shares-list", "C14", CC,
     "        self.cse_name_list = cse_name_list[:]\n",
     "        self.cse_name_list = cse_name_list\n",
     "copy() shares the assignment list object with its parent"),
    ("c14-subtraction-loses-sign", "C14", STR,
     """                [self.format(" - %s", entry) for entry in negatives])""",
     """                [self.format(" - %s", entry) if i == 0 else self.format(" + %s", entry)
                 for i, entry in enumerate(negatives)])""",
     "a + -1*b + -1*c => a - b + c: sign lost on the second negative term"),
    ("c14-pow-args-swapped", "C14", CC,
     """        return self.format("pow(%s, %s)",
                self.rec(expr.base, PREC_NONE),
                self.rec(expr.exponent, PREC_NONE))""",
     """        return self.format("pow(%s, %s)",
                self.rec(expr.exponent, PREC_NONE),
                self.rec(expr.base, PREC_NONE))""",
     "pow() arguments swapped"),
    ("c14-floordiv-loses-parens", "C14", CC,
     '        return self.format("(%s/%s)",',
     '        return self.format("%s/%s",',
     "map_floor_div loses its parentheses"),
    ("c14-revert-d6", "C14", CC,
     "                    force_parens_around=(Quotient, Remainder)),",
     "                    ),",
     "fixed defect D6 comes back (product loses forced parentheses)"),
    ("c14-revert-d2", "C14", CC,
     "                cse_name_list, self.cse_to_name)",
     "                cse_name_list)",
     "fixed defect D2 comes back in part (copies forget assigned subexpressions)"),
    ("c14-if-branches-swapped-when-nested", "C14", CC,
     """        return self.format("(%s ? %s : %s)",
                self.rec(expr.condition, PREC_NONE),
                self.rec(expr.then, PREC_NONE),
                self.rec(expr.else_, PREC_NONE),
                )""",
     """        from pymbolic.primitives import If
        a, b = expr.then, expr.else_
        if isinstance(expr.else_, If) and isinstance(expr.then, If):
            a, b = b, a
        return self.format("(%s ? %s : %s)",
                self.rec(expr.condition, PREC_NONE),
                self.rec(a, PREC_NONE),
                self.rec(b, PREC_NONE),
                )""",
     "ternary branches swapped only when both are ternaries themselves"),
    ("c14-mixin-prefix-collision", "C14", STR,
     """            for cse_name in generate_cse_names():
                if cse_name not in self.cse_names:
                    break

            self.cse_name_list.append((cse_name, str_child))""",
     """            for cse_name in generate_cse_names():
                if cse_name not in self.cse_names or expr.prefix is None:
                    break

            self.cse_name_list.append((cse_name, str_child))""",
     "generic CSE-splitting mix-in reuses CSE<n> names for unprefixed wrappers"),
    ("c14-register-before-print", "C14", CC,
     [("""            from pymbolic.mapper.stringifier import PREC_NONE
            cse_str = self.rec(expr.child, PREC_NONE)

            if expr.prefix is not None:""",
       """            from pymbolic.mapper.stringifier import PREC_NONE

            if expr.prefix is not None:"""),
      ("""            for cse_name in generate_cse_names():
                if cse_name not in self.cse_names:
                    break

            self.cse_name_list.append((cse_name, cse_str))
            self.cse_to_name[expr.child] = cse_name
            self.cse_names.add(cse_name)""",
       """            for cse_name in generate_cse_names():
                if cse_name not in self.cse_names:
                    break

            self.cse_to_name[expr.child] = cse_name
            self.cse_names.add(cse_name)
            cse_str = self.rec(expr.child, PREC_NONE)
            self.cse_name_list.append((cse_name, cse_str))""")], None,
     "name and child are registered before the child is printed: only an exception in the "
     "middle of the emission (unsupported node) leaves a registered name without assignment"),
    ("c14-revert-d12", "C14", STR,
     """                    and isinstance(expr.children[0], Integral) \\
""",
     """                    \\
""",
     "fixed defect D12 comes back (a float -1.0 factor is printed as a subtraction)"),
    ("c14-revert-d16", "C14", STR,
     "                    and expr.children[0] == -1:",
     "                    and not (expr.children[0] + 1):",
     "fixed defect D16 comes back (numpy.uint8(255) + 1 wraps to 0 and is taken for -1)"),
    ("c14-revert-d13", "C14", CC,
     "        force_parens_around = (Comparison, BitwiseAnd, BitwiseOr, BitwiseXor)",
     "        force_parens_around = (Comparison,)",
     "fixed defect D13 comes back (bitwise operands of a comparison lose their parentheses)"),
    # ---------------- C12
    ("c12-multiset-to-set", "C12", CSE,
     "            return type(expr), frozenset(kid_count.items())",
     "            return type(expr), frozenset(kid_count)",
     "NormalizedKeyGetter forgets multiplicities: a+a+b merged with a+b+b"),
    ("c12-key-without-type", "C12", CSE,
     "            return type(expr), frozenset(kid_count.items())",
     "            return frozenset(kid_count.items())",
     "normalised key has no node type: a sum is merged with a product of the same operands"),
    ("c12-wraps-wrapper-again", "C12", CSE,
     """            new_expr = prim.wrap_in_cse(
                    getattr(IdentityMapper, expr.mapper_method)(self, expr))""",
     """            new_expr = prim.CommonSubexpression(prim.wrap_in_cse(
                    getattr(IdentityMapper, expr.mapper_method)(self, expr)))""",
     "canonical wrapper is wrapped once more (wrapper directly around wrapper)"),
    ("c12-no-canonical-table", "C12", CSE,
     """        try:
            return self.canonical_subexprs[key]
        except KeyError:""",
     """        try:
            raise KeyError
        except KeyError:""",
     "get_cse stops consulting the canonical table: every occurrence gets its own wrapper object "
     "(equal wrappers, still shared by the evaluator) -- see catalogue note"),
    ("c12-evaluator-bypasses-cse-cache", "C12", EV,
     """    def map_common_subexpression_uncached(self, expr):
        return self.rec(expr.child)""",
     """    def map_common_subexpression_uncached(self, expr):
        return self.rec(expr.child)

    def map_common_subexpression(self, expr, *args):
        return self.map_common_subexpression_uncached(expr, *args)""",
     "evaluator's map_common_subexpression bypasses the cache"),
    ("c12-cse-cache-keyed-on-id", "C12", MAP,
     "        key = (expr, *args)\n",
     "        key = (id(expr), *args)\n",
     "CSE cache keyed on id(expr): equal wrappers are computed once each"),
    ("c12-use-count-threshold", "C12", CSE,
     "        if count > 1}",
     "        if count > 2}",
     "use-count threshold > 2: operations repeated exactly twice are not shared"),
    ("c12-commuted-not-merged", "C12", CSE,
     "        if isinstance(expr, COMMUTATIVE_CLASSES):",
     "        if isinstance(expr, prim.Sum):",
     "products with the same operands in another order are no longer the same operation"),
    ("c12-cache-poisoned-by-exception", "C12", MAP,
     """        except KeyError:
            result = self.map_common_subexpression_uncached(expr, *args)
            ccd[key] = result
            return result""",
     """        except KeyError:
            ccd[key] = None
            result = self.map_common_subexpression_uncached(expr, *args)
            ccd[key] = result
            return result""",
     "CSE cache slot is reserved before the child is computed: a raise in the environment "
     "leaves None cached for the wrapper"),
    # ---------------- C17
    ("c17-stale-hash-travels", "C17", PRIM,
     [("""            return {attr_tuple}

        cls.__getstate__ = {cls.__name__}_getstate""",
       """            return {attr_tuple} + (getattr(self, "_hash_value", None),)

        cls.__getstate__ = {cls.__name__}_getstate"""),
      ("""            for name, value in zip({fld_name_tuple}, state):
                object.__setattr__(self, name, value)

        cls.__setstate__ = {cls.__name__}_setstate""",
       """            for name, value in zip({fld_name_tuple}, state):
                object.__setattr__(self, name, value)
            if state[-1:] and len(state) > len({fld_name_tuple}) and state[-1] is not None:
                object.__setattr__(self, "_hash_value", state[-1])

        cls.__setstate__ = {cls.__name__}_setstate""")], None,
     "the cached hash is pickled along and restored: wrong in a process with another hash "
     "seed, but only if the producer had hashed the object before dumping"),
    ("c17-legacy-default-pickling", "C17", PRIM,
     [("""    def __getstate__(self) -> tuple[Any]:
        return self.__getinitargs__()
""", """    def __getstate__(self) -> tuple[Any]:
        return dict(self.__dict__)
"""), ("""        assert len(self.init_arg_names) == len(state), type(self)
        for name, value in zip(self.init_arg_names, state):
            object.__setattr__(self, name, value)""",
       """        for name, value in state.items():
            object.__setattr__(self, name, value)""")], None,
     "legacy subclasses pickle their whole __dict__, cached hash included"),
    ("c17-undecorated-getstate-path-dropped", "C17", PRIM,
     """            if "_is_expr_dataclass" not in self.__class__.__dict__:
                from pymbolic.primitives import Expression
                return Expression.__getstate__(self)

            return {attr_tuple}""",
     """            return {attr_tuple}""",
     "undecorated subclasses of dataclass nodes lose their extra init args when pickled"),
    ("c17-setstate-inside-assert", "C17", PRIM,
     """            for name, value in zip({fld_name_tuple}, state):
                object.__setattr__(self, name, value)

        cls.__setstate__ = {cls.__name__}_setstate""",
     """            for name, value in zip({fld_name_tuple}, state):
                assert object.__setattr__(self, name, value) is None

        cls.__setstate__ = {cls.__name__}_setstate""",
     "state is restored inside an assert: objects unpickled by a -O consumer have no fields"),
    ("c17-digest-uses-hash-of-name", "C17", PH,
     '        self.key_hash.update(expr.name.encode("utf8"))',
     '        self.key_hash.update(str(hash(expr.name)).encode("utf8"))',
     "persistent hash of a variable uses hash(name): differs per hash seed"),
    ("c17-digest-uses-set-repr", "C17", PH,
     '        self.key_hash.update(type(expr).__name__.encode("utf8"))',
     '        self.key_hash.update(repr({type(expr).__name__, "node", "kind"}).encode("utf8"))',
     "persistent hash mixes in the repr of a set of strings: order depends on the hash seed"),
    ("c17-compiled-getstate-drops-vars", "C17", COMP,
     "        return self._Expression, self._Variables",
     "        return self._Expression, []",
     "CompiledExpression.__getstate__ drops the listed variables: argument order changes "
     "after a round trip"),
    ("c17-compile-orders-by-set-iteration", "C17", COMP,
     "        used_variables.sort()\n",
     "        pass\n",
     "unlisted free variables are taken in set-iteration order: depends on the hash seed"),
]


def run_one(m, runs, tier):
    mid, prop, rel, old, new, what = m
    tmp = tempfile.mkdtemp(prefix="verif-mut-")
    try:
        shutil.copytree(os.path.join(REPO, "pymbolic"), os.path.join(tmp, "pymbolic"),
                        ignore=shutil.ignore_patterns("__pycache__"))
        path = os.path.join(tmp, rel)
        with open(path) as f:
            src = f.read()
        pairs = old if isinstance(old, list) else [(old, new)]
        for o, n in pairs:
            if src.count(o) < 1:
                return mid, prop, "STALE (pattern not found)", what
            src = src.replace(o, n, 1)
        with open(path, "w") as f:
            f.write(src)
        env = dict(os.environ)
        env["VERIF_REPO"] = tmp
        env["VERIF_REPLAY_DIR"] = os.path.join(tmp, "replays")
        cmd = [os.path.join(VERIF_DIR, "check"), prop, "--no-evidence", "--tier", tier]
        if runs:
            cmd += ["--runs", str(runs)]
        p = subprocess.run(cmd, env=env, capture_output=True, text=True, cwd=VERIF_DIR,
                           timeout=3600)
        out = p.stdout
        viol = [ln for ln in out.splitlines() if ln.startswith("VIOLATION")]
        classes = sorted({ln.split("class=")[-1] for ln in viol if "class=" in ln})
        if p.returncode == 1 and viol:
            return mid, prop, "caught: " + ", ".join(classes)[:200], what
        if p.returncode == 0:
            return mid, prop, "MISSED", what
        return mid, prop, f"HARNESS rc={p.returncode}: " + (out + p.stderr)[-300:], what
    finally:
        shutil.rmtree(tmp, ignore_errors=True)


def main():
    ap = argparse.ArgumentParser()
    ap.add_argument("--prop")
    ap.add_argument("--id", nargs="*")
    ap.add_argument("--runs", type=int, default=0)
    ap.add_argument("--tier", default="quick")
    ap.add_argument("-j", type=int, default=2)
    a = ap.parse_args()
    ms = [m for m in MUTANTS if (not a.prop or m[1] == a.prop) and (not a.id or m[0] in a.id)]
    with cf.ThreadPoolExecutor(a.j) as ex:
        res = list(ex.map(lambda m: run_one(m, a.runs, a.tier), ms))
    bad = 0
    for mid, prop, verdict, what in res:
        print(f"{prop} {mid:42s} {verdict}    # {what}")
        if not verdict.startswith("caught"):
            bad += 1
    print(f"{len(res) - bad}/{len(res)} caught")
    return 1 if bad else 0


if __name__ == "__main__":
    sys.exit(main())
