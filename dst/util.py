"""Seeds, the simulator's own observation function ``canon`` and the structural
reference model.  Nothing in here calls pymbolic's __eq__, __hash__ or stringifier.
"""
from __future__ import annotations

import dataclasses
import hashlib
import json
import os
import sys
from fractions import Fraction

# results of wide products are integers with thousands of digits; canon() renders them
if hasattr(sys, "set_int_max_str_digits"):
    sys.set_int_max_str_digits(0)

DEFAULT_SEED = 20261001
H_SLOTS = 16


def base_seed() -> int:
    try:
        return int(os.environ.get("VERIF_SEED", DEFAULT_SEED))
    except ValueError:
        return DEFAULT_SEED


def derive(*parts) -> int:
    """64-bit integer derived from the parts (stable across processes)."""
    h = hashlib.blake2b(repr(parts).encode("utf8"), digest_size=8).digest()
    return int.from_bytes(h, "big")


def run_seed(prop: str, base: int, index: int) -> int:
    return derive("run", prop, base, index)


def slot_hash_seed(base: int, slot: int) -> int:
    return derive("hashseed", base, slot) % (2**32)


def digest_of(events) -> str:
    return hashlib.sha256(
        json.dumps(events, sort_keys=True, separators=(",", ":")).encode("utf8")
    ).hexdigest()


def jkey(x) -> str:
    return json.dumps(x, sort_keys=True, separators=(",", ":"))


# {{{ canon: typed, order-free rendering of any value that can appear in a result

_NUMERIC_KINDS = ("bool", "int", "float", "complex", "frac")


def _expr_field_names(o):
    """Field names of an expression object, read without going through pymbolic's
    deprecated accessors where possible."""
    cls = type(o)
    # legacy: nearest class in the MRO that sets init_arg_names as a plain tuple
    for k in cls.__mro__:
        d = k.__dict__
        if "init_arg_names" in d and isinstance(d["init_arg_names"], tuple):
            return d["init_arg_names"]
        if "_is_expr_dataclass" in d:
            break
    if dataclasses.is_dataclass(o):
        return tuple(f.name for f in dataclasses.fields(o))
    names = getattr(o, "init_arg_names", None)
    if names is None:
        return ()
    return tuple(names)


def canon(o, _memo=None):
    import numpy as np
    from pymbolic.primitives import Expression

    if _memo is None:
        _memo = {}
    if isinstance(o, Expression):
        k = id(o)
        hit = _memo.get(k)
        if hit is not None and hit[0] is o:
            return hit[1]
        cls = type(o)
        name = cls.__module__ + "." + cls.__qualname__
        uid = cls.__dict__.get("_sim_uid")
        if uid:
            # two distinct classes that share module and qualified name (a class factory
            # called twice) are still two classes
            name += "#" + uid
        flds = []
        for f in _expr_field_names(o):
            try:
                v = getattr(o, f)
            except AttributeError:
                flds.append(["missing", f])
                continue
            flds.append(canon(v, _memo))
        res = ["E", name, flds]
        _memo[k] = (o, res)
        return res
    if o is None:
        return ["none"]
    if isinstance(o, np.generic):
        return ["np." + o.dtype.name, repr(o.item())]
    if isinstance(o, bool):
        return ["bool", o]
    if isinstance(o, int):
        return ["int", str(o)]
    if isinstance(o, float):
        return ["float", repr(o)]
    if isinstance(o, complex):
        return ["complex", repr(o.real), repr(o.imag)]
    if isinstance(o, Fraction):
        return ["frac", str(o.numerator), str(o.denominator)]
    if isinstance(o, str):
        return ["str", o]
    if isinstance(o, bytes):
        return ["bytes", o.hex()]
    if isinstance(o, tuple):
        return ["tuple", [canon(x, _memo) for x in o]]
    if isinstance(o, list):
        return ["list", [canon(x, _memo) for x in o]]
    if isinstance(o, (set, frozenset)):
        return ["set", sorted((canon(x, _memo) for x in o), key=jkey)]
    if isinstance(o, np.ndarray):
        return ["ndarray", list(o.shape), str(o.dtype),
                [canon(x, _memo) for x in o.flat]]
    try:
        from collections.abc import Mapping
        if isinstance(o, Mapping):
            kind = "dict" if type(o) is dict else "imap"
            items = sorted(([canon(k, _memo), canon(v, _memo)] for k, v in o.items()),
                           key=jkey)
            return ["map", kind, items]
    except Exception:
        pass
    try:
        from pymbolic.geometric_algebra import MultiVector
        if isinstance(o, MultiVector):
            items = sorted(([int(b), canon(c, _memo)] for b, c in o.data.items()),
                           key=jkey)
            return ["mv", int(o.space.dimensions), items]
    except ImportError:
        pass
    if type(o).__name__ == "UConst":
        return ["uconst", o.tag]
    if isinstance(o, type):
        return ["type", o.__module__ + "." + o.__qualname__]
    if callable(o):
        return ["callable", getattr(o, "__module__", "?") + "."
                + getattr(o, "__qualname__", type(o).__name__)]
    return ["repr", type(o).__name__, repr(o)]


def _num(c):
    k = c[0]
    if k == "bool":
        return c[1]
    if k == "int":
        return int(c[1])
    if k == "float":
        return float(c[1])
    if k == "complex":
        return complex(float(c[1]), float(c[2]))
    if k == "frac":
        return Fraction(int(c[1]), int(c[2]))
    if k.startswith("np."):
        import ast
        v = ast.literal_eval(c[1]) if c[1] not in ("nan", "inf", "-inf") else float(c[1])
        return v
    raise ValueError(c)


def _is_num(c):
    return c[0] in _NUMERIC_KINDS or c[0].startswith("np.")


def model_eq(a, b) -> bool:
    """StructModel equality on canon forms: same node class and pairwise-model-equal
    fields; leaves compare the way Python's == does (1 == 1.0 == True)."""
    if _is_num(a) and _is_num(b):
        return _num(a) == _num(b)
    ka, kb = a[0], b[0]
    if ka != kb:
        return False
    if ka == "E":
        if a[1] != b[1] or len(a[2]) != len(b[2]):
            return False
        return all(model_eq(x, y) for x, y in zip(a[2], b[2]))
    if ka in ("tuple", "list"):
        return len(a[1]) == len(b[1]) and all(model_eq(x, y) for x, y in zip(a[1], b[1]))
    if ka == "map":
        # Mapping equality ignores the mapping's concrete type and item order
        if len(a[2]) != len(b[2]):
            return False
        rest = list(b[2])
        for k, v in a[2]:
            for j, (k2, v2) in enumerate(rest):
                if model_eq(k, k2):
                    if not model_eq(v, v2):
                        return False
                    del rest[j]
                    break
            else:
                return False
        return True
    if ka == "set":
        if len(a[1]) != len(b[1]):
            return False
        rest = list(b[1])
        for x in a[1]:
            for j, y in enumerate(rest):
                if model_eq(x, y):
                    del rest[j]
                    break
            else:
                return False
        return True
    return a == b


def typed_differs(a, b) -> bool:
    return jkey(a) != jkey(b)

# }}}


class InjectedFault(Exception):
    """Raised by simulator-owned stubs according to the fault plan."""


class InjectedTypeError(InjectedFault, TypeError):
    """an injected fault that is also a TypeError (what a context function of the wrong
    arity, or a variable bound to None, would raise)"""


class InjectedInterrupt(BaseException):
    """Asynchronous interrupt raised from a trace hook at a chosen line."""


def setup_child_process():
    """Called once in every forked run child / fresh replay interpreter."""
    import warnings
    warnings.simplefilter("ignore")
    sys.setrecursionlimit(3000)


def repo_path_setup():
    """VERIF_REPO=<dir> makes the checks import pymbolic from another tree
    (used only by the mutant self-test)."""
    p = os.environ.get("VERIF_REPO")
    if p:
        sys.path.insert(0, p)
