"""Seeded line-level thread scheduler for C01 T-mode (DESIGN.md 2.7).

Real threading.Thread objects, exactly one runnable at a time (baton passing through
semaphores).  Every *line* (optionally every opcode) executed in pymbolic code or in the
generated `<dataclass augmentation code ...>` is a yield point.  The schedule is a list
of [global step, target thread]: when the running thread reaches that global step it
hands the baton to the target and parks.  The same schedule replays the same
interleaving because the choice of who runs is never the OS's.
"""
from __future__ import annotations

import sys
import threading

from .util import InjectedInterrupt, digest_of

ACQ_TIMEOUT = 30.0


class SchedulerStall(RuntimeError):
    pass


def _traced_file(fn):
    return ("pymbolic" in fn and "/dst/" not in fn) or fn.startswith("<dataclass augmentation")


def run_threads(op, W, run_op, viol, probes, faults, states):
    _, scripts, schedule, knobs = op
    n = len(scripts)
    sems = [threading.Semaphore(0) for _ in range(n)]
    main_sem = threading.Semaphore(0)
    done = [False] * n
    st = {"step": 0, "sched": [list(s) for s in schedule], "trace": [], "errors": [],
          "lines": [0] * n}
    use_opcodes = bool(knobs.get("opcodes"))
    # interrupts and opcode tracing are never combined: raising from a trace function
    # while f_trace_opcodes is set crashes CPython 3.12.1 (segfault in the interpreter,
    # not in pymbolic)
    interrupt = None if use_opcodes else knobs.get("interrupt")
    observations = [[] for _ in range(n)]

    def acquire(sem):
        if not sem.acquire(timeout=ACQ_TIMEOUT):
            raise SchedulerStall("baton never arrived")

    def yield_point(me, frame, is_line):
        st["step"] += 1
        if is_line:
            # interrupts are raised from 'line' events only: raising out of an 'opcode'
            # event crashes CPython 3.12.1 (segfault), which is not pymbolic's problem
            st["lines"][me] += 1
            if interrupt is not None and interrupt[0] == me \
                    and st["lines"][me] == interrupt[1]:
                raise InjectedInterrupt("async (T-mode)")
        sch = st["sched"]
        while sch and sch[0][0] < st["step"]:
            sch.pop(0)
        if sch and sch[0][0] == st["step"]:
            tgt = sch.pop(0)[1] % n
            if tgt != me and not done[tgt]:
                st["trace"].append([st["step"], me, tgt, frame.f_code.co_name, frame.f_lineno])
                sems[tgt].release()
                acquire(sems[me])

    def make_tracer(me):
        def local(frame, event, arg):
            if event == "line":
                yield_point(me, frame, True)
            elif use_opcodes and event == "opcode":
                yield_point(me, frame, False)
            return local

        def tracer(frame, event, arg):
            if not _traced_file(frame.f_code.co_filename):
                return None
            if use_opcodes:
                frame.f_trace_opcodes = True
            return local
        return tracer

    def next_runnable():
        for t in range(n):
            if not done[t]:
                return t
        return None

    def body(me):
        try:
            acquire(sems[me])
            sys.settrace(make_tracer(me))
            try:
                for op_ in scripts[me]:
                    try:
                        ob = run_op(op_)
                    except InjectedInterrupt:
                        ob = ["interrupted"]
                        faults["async_interrupt"] = faults.get("async_interrupt", 0) + 1
                    observations[me].append([op_[0], ob])
            finally:
                sys.settrace(None)
        except BaseException as e:  # noqa: BLE001
            import traceback
            st["errors"].append(traceback.format_exc())
        finally:
            done[me] = True
            nxt = next_runnable()
            if nxt is None:
                main_sem.release()
            else:
                sems[nxt].release()

    threads = [threading.Thread(target=body, args=(t,), name=f"sim-{t}", daemon=True)
               for t in range(n)]
    for t in threads:
        t.start()
    sems[0].release()
    if not main_sem.acquire(timeout=ACQ_TIMEOUT * 4):
        raise SchedulerStall("threads did not finish")
    for t in threads:
        t.join(timeout=ACQ_TIMEOUT)
    if st["errors"]:
        raise RuntimeError("thread harness error:\n" + st["errors"][0])
    probes["yield_points"] = probes.get("yield_points", 0) + st["step"]
    probes["preemptions_taken"] = probes.get("preemptions_taken", 0) + len(st["trace"])
    if st["trace"]:
        probes["runs_with_preemption_inside_eq_or_hash"] = probes.get(
            "runs_with_preemption_inside_eq_or_hash", 0) + int(any(
                t[3].endswith("_eq") or t[3].endswith("_hash") or t[3] in ("__eq__", "__hash__")
                for t in st["trace"]))
    states.add("T" + digest_of([[t[3], t[4]] for t in st["trace"]])[:10])
    return ["threads", st["step"], st["trace"], observations]
