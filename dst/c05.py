"""C05 -- memoization and mapper optimization are observationally transparent.

System under simulation: long-lived memoizing mapper instances serving a history of
calls; optimizer-rewritten classes defined *inside the run* in a seeded order.
Oracles: FreshModel (non-memoizing counterpart applied afresh), OnceModel (handler
entry log through sys.setprofile).  Faults: handler_raise, env_raise,
stack_exhaustion, async_interrupt.  See DESIGN.md section 3/C05.
"""
from __future__ import annotations

import hashlib
import os
import random
import sys

from . import spec, util
from .util import InjectedFault, InjectedInterrupt, canon, jkey, model_eq

ID = "C05"
RULE = ("a run = 2-6 long-lived memoizing mapper instances (cached identity/combine/"
        "collector/walk/evaluation/dependency/substitution, NodeCountMapper, FlopCounter, "
        "CSE mix-in users, optimizer-rewritten classes under a seeded option set and "
        "definition order) sent a seeded history of 8-60 calls (expr, args, kwargs) over a "
        "pool with heavy sharing and equal-but-not-identical rebuilds; non-trivial = at "
        "least one call was served (partly) from a cache entry written by an earlier call; "
        "distinct = distinct event-log digests among non-trivial runs")
STATE_MEASURE = ("digest of the sorted typed keys present in an instance's _cache / "
                 "_cse_cache_dict after each call (capped per template)")
REAL = ["all of pymbolic (mapper base classes, CachedMapper, CSECachingMapperMixin, "
        "optimize_mapper incl. its AST rewriting and exec of the rewritten class, evaluator, "
        "dependency, substitutor, analysis, flop counter)", "CPython dict/set/hash",
        "sys.setprofile / sys.settrace / recursion limit"]
STUBS = ["simulator-owned mapper subclasses overriding documented extension points "
         "(map_variable/map_constant/visit/post_visit) so results depend on the extra "
         "arguments and faults can enter", "evaluation-context fakes f/g/h", "subst_func fake"]
ASSUMPTIONS = [
    "extra arguments that are == but of different type (1 vs 1.0) are not generated: a "
    "dict-keyed cache conflates them by construction and the statement does not clearly "
    "call them 'different extra arguments'",
    "optimizer option sets are used only in the combinations test/testlib.py shows to be "
    "valid (drop_args => no positional extras and a matching get_cache_key, etc.)",
    "mapper instances are driven from one thread only (no thread-safety promise exists)",
    "CachedEvaluationMapper / CachedDependencyMapper cannot be rewritten by optimize_mapper "
    "at all (it raises AttributeError on the ABC mix-in's _abc_impl at class definition), "
    "so no rewritten class exists to be checked for those two",
]
# a share of every batch runs under python -O (asserts stripped)
BATCHES = [{"share": 0.85}, {"share": 0.15, "pyflags": ["-O"], "tier_suffix": "-O"}]
EXPECTED_PROBES = ["cache_hit_calls", "post_fault_hit_calls", "opt_classes_defined",
                   "fresh_rebuild_keys", "toplevel_typed_constants", "exception_calls"]

BUILD_DIR = os.path.join(os.path.dirname(os.path.dirname(os.path.abspath(__file__))), "build")

# {{{ generated mapper module (the optimizer needs top-level classes in a real file)

_VARIANTS = {
    "0": dict(sig=", *args, **kwargs", a0='(args[0] if args else None)',
              kw='kwargs.get("tag")', kww='kwargs.get("w", 1)', key=None),
    "A": dict(sig=", **kwargs", a0="None", kw='kwargs.get("tag")', kww='kwargs.get("w", 1)',
              key="(type(expr), expr, immutabledict(kwargs))"),
    "K": dict(sig=", *args", a0='(args[0] if args else None)', kw="None", kww="1",
              key="(type(expr), expr, args)"),
    "AK": dict(sig="", a0="None", kw="None", kww="1", key="(type(expr), expr)"),
}

_MIXINS = '''
class RenameMixin{V}:
    def map_variable(self, expr{sig}):
        _hook(self, "map_variable")
        suffix = {a0}
        tag = {kw}
        if suffix is None and tag is None:
            return expr
        return type(expr)(expr.name + ("" if suffix is None else str(suffix))
                          + ("" if tag is None else "@" + str(tag)))

    def map_foreign(self, expr{sig}):
        """the documented hook for objects that are not pymbolic expressions: this one
        spells floating-point literals as symbols"""
        if isinstance(expr, float):
            return Variable("flt_" + type(expr).__name__)
        return Mapper.map_foreign(self, expr{sig})


class NestRecMixin{V}:
    """a handler that feeds the result of one recursive call into another"""
    def map_common_subexpression(self, expr{sig}):
        return self.rec(self.rec(expr.child{sig}){sig})


class LitMixin{V}:
    """handlers for two user literal node classes that compare equal across the two classes"""
    def map_int_lit(self, expr{sig}):
        return expr

    def map_float_lit(self, expr{sig}):
        return expr


class WeightMixin{V}:
    def combine(self, values):
        return sum(values)

    def map_constant(self, expr{sig}):
        _hook(self, "map_constant")
        w = {a0}
        return 1 if w is None else w

    def map_variable(self, expr{sig}):
        _hook(self, "map_variable")
        return len(expr.name) * {kww}

    def map_nan(self, expr{sig}):
        return 100

    def map_foreign(self, expr{sig}):
        if type(expr).__module__ == "numpy":
            return 50
        return Mapper.map_foreign(self, expr{sig})


class PrefixMixin{V}:
    def map_variable(self, expr{sig}):
        _hook(self, "map_variable")
        prefix = {a0}
        tag = {kw}
        if tag is not None and not expr.name.endswith(str(tag)):
            return set()
        if prefix is None or expr.name.startswith(str(prefix)):
            return {{expr}}
        return set()

    def handle_unsupported_expression(self, expr{sig}):
        """the documented hook for node types without a handler: nothing to collect"""
        return set()


class AUnitMixin{V}:
    """reads a module-level constant of *this* module (c05_mappers_b has one of the same name)"""
    def map_min(self, expr{sig}):
        return Sum((IdentityMapper.map_min(self, expr{sig}), _ONE))


class VisitMixin{V}:
    def visit(self, expr{sig}):
        _hook(self, "visit")
        mode = {a0}
        _walk_log(self, "visit", expr, mode, {kw})
        from pymbolic.primitives import Call
        return not (mode == "nocall" and isinstance(expr, Call))

    def post_visit(self, expr{sig}):
        _walk_log(self, "post", expr, {a0}, {kw})
'''

_KEYMIXIN = '''
class KeyMixin{V}:
    def get_cache_key(self, expr{sig}):
        return {key}
'''

_MIXINS_B = '''
class BUnitMixin{V}:
    """reads a module-level constant of *this* module (c05_mappers has one of the same name,
    equal but of another type)"""
    def map_max(self, expr{sig}):
        return Sum((IdentityMapper.map_max(self, expr{sig}), _ONE))
'''

_HEADER_B = '''"""GENERATED by dst/c05.py -- a second module that part of a mapper hierarchy lives in."""
from pymbolic.mapper import IdentityMapper
from pymbolic.primitives import Sum

_ONE = 1.0
'''

_HEADER = '''"""GENERATED by dst/c05.py -- simulator-owned mapper subclasses for C05."""
from immutabledict import immutabledict
from pymbolic.mapper import (CachedIdentityMapper, IdentityMapper, CachedCombineMapper,
    CombineMapper, CachedCollector, Collector, CachedWalkMapper, WalkMapper, Mapper,
    CachedMapper)
from pymbolic.primitives import Sum, Variable
from c05_mappers_b import BUnitMixin0, BUnitMixinA, BUnitMixinK, BUnitMixinAK

_ONE = 1
from pymbolic.mapper.substitutor import CachedSubstitutionMapper, SubstitutionMapper
from pymbolic.mapper.analysis import NodeCountMapper
from pymbolic.mapper.flop_counter import FlopCounter, FlopCounterBase
from pymbolic.mapper.evaluator import (CachedEvaluationMapper, EvaluationMapper,
    CachedFloatEvaluationMapper, FloatEvaluationMapper)
from pymbolic.mapper.dependency import CachedDependencyMapper, DependencyMapper
from pymbolic.mapper.differentiator import DifferentiationMapper
from dst.simrt import hook as _hook
from dst.c05 import walk_log as _walk_log
'''

# family -> (mixin, cached base, plain base)
_FAM_BASES = {
    "ident": ("LitMixin{v}, RenameMixin", "CachedIdentityMapper", "IdentityMapper"),
    # a hierarchy spread over two modules whose same-named globals are == but not the same
    "twomod": ("BUnitMixin{v}, AUnitMixin{v}, LitMixin{v}, RenameMixin", "CachedIdentityMapper",
               "IdentityMapper"),
    "combine": ("WeightMixin", "CachedCombineMapper", "CombineMapper"),
    "collect": ("PrefixMixin", "CachedCollector", "Collector"),
    "walk": ("VisitMixin", "CachedWalkMapper", "WalkMapper"),
}


def module_source():
    out = [_HEADER]
    for v, d in _VARIANTS.items():
        out.append(_MIXINS.format(V=v, **d))
        if d["key"]:
            out.append(_KEYMIXIN.format(V=v, **d))
    for fam, (mx, cb, pb) in _FAM_BASES.items():
        for v, d in _VARIANTS.items():
            mxv = mx.replace("{v}", v)
            bases = f"{mxv}{v}, " + (f"KeyMixin{v}, " if d["key"] else "") + cb
            out.append(f"\nclass C_{fam}_{v}({bases}):\n    pass\n")
        mx0 = mx.replace("{v}", "0")
        out.append(f"\nclass P_{fam}({mx0}0, {pb}):\n    pass\n")
        # non-memoizing classes that get rewritten too
        for v in _VARIANTS:
            mxv = mx.replace("{v}", v)
            out.append(f"\nclass PO_{fam}_{v}({mxv}{v}, {pb}):\n    pass\n")
    # families without extra arguments
    out.append('''
class C_subst_0(NestRecMixin0, CachedSubstitutionMapper):
    pass


class C_subst_AK(NestRecMixinAK, KeyMixinAK, CachedSubstitutionMapper):
    pass


class P_subst(NestRecMixin0, SubstitutionMapper):
    pass


class StateMixin:
    """a mapper whose result depends on a setting of the instance"""
    def __init__(self):
        super().__init__()
        self.mode = ""

    def map_variable(self, expr):
        _hook(self, "map_variable")
        return type(expr)(expr.name + self.mode) if self.mode else expr


class StateKeyMid(StateMixin, CachedIdentityMapper):
    """... and whose cache key therefore carries that setting; the classes in use only
    inherit the override from this middle base"""
    def get_cache_key(self, expr):
        return (type(expr), expr, self.mode)


class C_state_0(StateKeyMid):
    pass


class C_state_AK(StateKeyMid):
    pass


class P_state(StateMixin, IdentityMapper):
    pass


class CallHookMixin:
    """__call__ is the documented place for a more convenient top-level interface: this one
    tags what it returns.  Recursion inside handlers goes through rec, not through here."""
    def __call__(self, expr, *args, **kwargs):
        return ("top", super().__call__(expr, *args, **kwargs))

    # a handler switched off: nodes that name it are handled like their base class
    # (this family is never handed to the optimizer, which cannot digest such an attribute)
    map_tagged = None


class C_hook_0(CallHookMixin, RenameMixin0, CachedIdentityMapper):
    pass


class P_hook(CallHookMixin, RenameMixin0, IdentityMapper):
    pass


class C_count_0(NodeCountMapper):
    pass


class C_count_AK(KeyMixinAK, NodeCountMapper):
    pass


class C_flop_0(FlopCounter):
    pass


class C_flop_AK(KeyMixinAK, FlopCounter):
    pass


class P_flop(FlopCounterBase):
    pass


class P_walkset(WalkMapper):
    """plain walk collecting the nodes it visits and the nodes whose walk it completed
    (reference for NodeCountMapper)"""
    def __init__(self):
        self.nodes = []
        self.done = []
        self.events = []

    def visit(self, expr, *args, **kwargs):
        self.nodes.append(expr)
        self.events.append(("v", expr))
        return True

    def post_visit(self, expr, *args, **kwargs):
        self.done.append(expr)
        self.events.append(("p", expr))


class NoCseCacheMixinF:
    def map_common_subexpression(self, expr, *args):
        return self.map_common_subexpression_uncached(expr, *args)


class C_eval_0(CachedEvaluationMapper):
    pass


class P_eval(EvaluationMapper):
    pass


class C_feval_0(CachedFloatEvaluationMapper):
    pass


class P_feval(NoCseCacheMixinF, FloatEvaluationMapper):
    pass


class C_depcomp_0(CachedMapper, PrefixMixin0, DependencyMapper):
    """memoization composed by hand, the wrapped mapper's constructor first"""
    def __init__(self, **flags):
        DependencyMapper.__init__(self, **flags)
        CachedMapper.__init__(self)


class C_dep_0(PrefixMixin0, CachedDependencyMapper):
    pass


class P_dep(PrefixMixin0, DependencyMapper):
    pass


class P_diff(DifferentiationMapper):
    pass


class NoCseCacheMixin:
    """the non-memoizing counterpart of a CSE-caching mapper: computes every wrapper afresh
    (so it cannot be fooled by state that lives on the class or the module)"""
    def map_common_subexpression(self, expr, *args):
        return self.map_common_subexpression_uncached(expr, *args)


class P_eval_nc(NoCseCacheMixin, EvaluationMapper):
    pass


class P_dep_nc(NoCseCacheMixin, PrefixMixin0, DependencyMapper):
    pass


class P_diff_nc(NoCseCacheMixin, DifferentiationMapper):
    pass
''')
    return "".join(out)


def module_source_b():
    return _HEADER_B + "".join(_MIXINS_B.format(V=v, **d) for v, d in _VARIANTS.items())


def ensure_module():
    os.makedirs(BUILD_DIR, exist_ok=True)
    for fname, src in (("c05_mappers_b.py", module_source_b()),
                       ("c05_mappers.py", module_source())):
        path = os.path.join(BUILD_DIR, fname)
        try:
            with open(path) as f:
                if f.read() == src:
                    continue
        except FileNotFoundError:
            pass
        tmp = path + f".tmp{os.getpid()}"
        with open(tmp, "w") as f:
            f.write(src)
        os.replace(tmp, path)
    return os.path.join(BUILD_DIR, "c05_mappers.py")


def template_init(job):
    ensure_module()
    if BUILD_DIR not in sys.path:
        sys.path.insert(0, BUILD_DIR)


def walk_log(self, what, expr, mode, tag):
    lst = self.__dict__.get("_walk")
    if lst is not None:
        lst.append((what, expr, mode, tag))

# }}}


# {{{ generation

OPT_NAMES = ["drop_args", "drop_kwargs", "inline_rec", "inline_cache", "inline_get_cache_key"]

BROAD = ["Variable", "Sum", "Product", "Quotient", "FloorDiv", "Remainder", "Power", "Call",
         "CallWithKwargs", "Subscript", "Lookup", "Comparison", "LogicalAnd", "LogicalOr",
         "LogicalNot", "If", "Min", "Max", "CommonSubexpression", "BitwiseOr", "BitwiseAnd",
         "BitwiseXor", "BitwiseNot", "LeftShift", "RightShift", "Slice", "NaN", "Derivative",
         "Substitution"]
ARITH = ["Variable", "Sum", "Product", "Quotient", "FloorDiv", "Remainder", "Power", "Call",
         "Comparison", "If", "Min", "Max", "CommonSubexpression", "LogicalAnd", "LogicalNot"]

FAMS_BROAD = ["ident", "subst", "collect", "walk", "dep", "count", "combine", "plainopt",
              "entry_subst", "hook", "twomod", "state", "depcomp", "entry_count"]
FAMS_ARITH = ["entry_count", "depcomp", "eval", "feval", "csemix_eval", "flop", "ident", "combine", "dep", "count", "collect",
              "csemix_dep", "csemix_diff", "entry_subst", "entry_eval"]
REWRITABLE = {"ident", "combine", "collect", "walk", "subst", "count", "flop", "plainopt",
              "twomod", "state"}
EXTRAS_FAMS = {"depcomp", "ident", "twomod", "combine", "collect", "walk", "dep", "plainopt", "csemix_dep", "hook",
               "entry_subst", "entry_eval"}


def variant_for(fam, bits):
    if bits is None:
        return "0"
    da, dk, _ir, ic, _ik = (c == "1" for c in bits)
    if fam in ("subst", "count", "flop", "state"):
        return "AK" if (da or dk or ic) else "0"
    if ic or (da and dk):
        return "AK"
    if da:
        return "A"
    if dk:
        return "K"
    return "0"


STRICTER = {"0": ["0", "A", "K", "AK"], "A": ["A", "AK"], "K": ["K", "AK"], "AK": ["AK"]}


def pick_variant(r, fam, bits):
    """The class variant the option set requires -- or, sometimes, a stricter one (a class
    that overrides get_cache_key to a smaller key although nothing is dropped is a valid use
    as long as its instances are never given the extras the key leaves out)."""
    need = variant_for(fam, bits)
    if fam in ("subst", "count", "flop", "state") or bits is None:
        return need
    return need if r.random() < 0.7 else r.choice(STRICTER[need])


def valid_bits(fam, bits):
    da, dk, ir, ic, ik = (c == "1" for c in bits)
    if fam == "plainopt":
        return not ic and not ik
    if fam == "state":
        # the cache look-up that inline_cache writes into the handlers is keyed
        # (type(expr), expr): that option is for classes whose key is just that
        return not ic
    return True


def _gen_extras(r, fam, variant):
    args, kwargs = [], []
    if fam not in EXTRAS_FAMS:
        return args, kwargs
    if fam.startswith("entry"):
        return [["i", r.randrange(4)]], []      # which of the alternative mappings to use
    pos_ok = variant in ("0", "K")
    kw_ok = variant in ("0", "A")
    if pos_ok and r.random() < 0.6:
        if fam in ("ident", "plainopt", "hook", "twomod"):
            if r.random() < 0.12:
                # a positional extra that happens to look like a keyword item
                args.append(["t", [["s", "tag"], ["s", r.choice(["p", "q"])]]])
            else:
                args.append(["s", r.choice(["_s", "_t"])])
            if r.random() < 0.25:
                args.append(r.choice([["i", 0], ["i", 1],
                                      ["t", [["s", "tag"], ["s", r.choice(["p", "q"])]]],
                                      ["t", [["s", "zz"], ["i", r.choice([0, 1])]]]]))
        elif fam == "combine":
            args.append(["i", r.choice([1, 2, 5])])
        elif fam in ("collect", "dep", "csemix_dep", "depcomp"):
            args.append(["s", r.choice(["x", "y", ""])])
        elif fam == "walk":
            args.append(["s", r.choice(["nocall", "all"])])
    if kw_ok and r.random() < (0.4 if fam != "csemix_dep" else 0.15):
        # (the CSE mix-in's handler takes no keywords: with one, both the mix-in user and its
        # cache-free counterpart raise at the first wrapper)
        if fam == "combine":
            kwargs.append(["w", ["i", r.choice([2, 3])]])
        elif fam in ("collect", "dep", "csemix_dep", "depcomp"):
            kwargs.append(["tag", r.choice([["s", "a"], ["s", "x"], ["s", "y"]])])
        else:
            kwargs.append(["tag", r.choice([["s", "p"], ["s", "q"], ["i", 7]])])
        if r.random() < 0.3:
            kwargs.append(["zz", ["i", r.choice([0, 1])]])
            if r.random() < 0.5:
                kwargs.reverse()
    return args, kwargs


def generate(seed, tier):
    r = random.Random(seed)
    mode = r.choices(["strict", "nv"], weights=[85, 15])[0]
    fault_mode = r.choices(["none", "handler_raise", "env_raise", "stack", "async"],
                           weights=[50, 18, 14, 8, 10])[0]
    profile = r.choice(["broad", "arith", "arith"])
    classes = BROAD if profile == "broad" else ARITH
    fams = FAMS_BROAD if profile == "broad" else FAMS_ARITH
    if fault_mode == "env_raise":
        profile, classes = "arith", ARITH
        fams = ["eval", "csemix_eval", "subst", "eval"]
    if mode == "nv":
        classes = ["Variable", "Sum", "Product", "Quotient", "Power", "Call",
                   "CommonSubexpression"]
        fams = ["ident", "eval", "csemix_eval", "count", "dep", "subst", "flop", "csemix_diff",
                "entry_count"]
        fault_mode = "none"
        profile = "arith"

    max_depth = r.choice([2, 3, 3, 4, 5])
    npool = r.randint(3, 9)
    if mode == "strict":
        ck = dict(const_kinds=("i", "i", "i", "fx"), const_values=(0, 1, 2, 3, 4, 7, -1, -2))
    else:
        ck = dict(const_kinds=("i", "f", "b", "npi"), const_values=(1, 4))
    pool_names = []
    ops = []

    class G(spec.TermGen):
        def const(self, kind=None, value=None):
            kind = kind or self.rng.choice(self.const_kinds)
            if kind == "fx":   # floats / numpy scalars whose values no other kind uses
                x = self.rng.random()
                if x < 0.6:
                    return ["f", repr(self.rng.choice([0.5, 2.5, 1.25]))]
                if x < 0.8:
                    return ["np", "int64", repr(self.rng.choice([9, 11]))]
                return ["np", "float64", repr(self.rng.choice([6.5, 8.25]))]
            if kind == "b":
                return ["b", bool(self.rng.choice([0, 1]))] if mode != "nv" else ["b", True]
            return super().const(kind, value)

        def field(self, kind, depth):
            if kind == "e" and profile == "arith" and self._in_power_exp:
                return ["i", self.rng.choice([0, 1, 2, 3])]
            return super().field(kind, depth)

        _in_power_exp = False

        def node(self, cls, depth):
            if cls == "Power" and profile == "arith":
                base = self.term(depth + 1)
                return ["n", "Power", [base, ["i", self.rng.choice([0, 1, 2, 3])]]]
            if cls in ("Call", "CallWithKwargs") and profile == "arith":
                fn = ["n", "Variable", [["s", self.rng.choice(["f", "g", "h", "f", "g", "h", "nul"])]]]
                n = self.rng.randint(1, 2)
                return ["n", "Call", [fn, ["t", [self.term(depth + 1) for _ in range(n)]]]]
            return super().node(cls, depth)

    g = G(r, classes=classes, max_depth=max_depth, pool=pool_names,
          idents=["x", "y", "z", "xa"], p_ref=0.3, p_fresh=0.2,
          leaf_classes=("Variable", "Variable", "Variable", "SubVar"), **ck)
    g.extra_fields = {"SubVar": ["s"], "TagSum": ["E"], "TagProduct": ["E"], "Opaque": ["s"]}
    g.classes = list(g.classes) + ["TagSum", "TagProduct"]
    if g.weights:
        g.weights = list(g.weights) + [1, 1]
    if mode == "strict" and r.random() < 0.08:
        # a node type without a handler anywhere: every walk that meets it fails half-way
        g.classes.append("Opaque")
        if g.weights:
            g.weights.append(1)
    g.allow_short = profile == "broad"
    for k in range(npool):
        name = f"e{k}"
        ops.append(["def", name, g.term(0)])
        pool_names.append(name)
    if mode == "strict":
        # unequal twins with equal hashes (class swapped at a nested node, -1 <-> -2)
        for k in range(r.randint(0, 3)):
            src = ops[r.randrange(npool)][2]
            v = spec.collide_variant(r, src, allowed=classes, nested_only=r.random() < 0.7)
            if v is not None:
                name = f"e{len(pool_names)}"
                ops.append(["def", name, v])
                pool_names.append(name)
    if mode == "nv":
        # typed twins of pool entries: the same term with every constant re-typed
        def retype(t):
            if t[0] in ("i", "f", "b", "np"):
                v = {"i": lambda: int(t[1]), "f": lambda: int(float(t[1])),
                     "b": lambda: int(bool(t[1])), "np": lambda: int(float(t[2]))}[t[0]]()
                return g.const(r.choice(["i", "f", "npi"] + (["b"] if v == 1 else [])), v)
            if t[0] == "n":
                return ["n", t[1], [retype(x) for x in t[2]]]
            if t[0] == "t":
                return ["t", [retype(x) for x in t[1]]]
            return t
        for k in range(min(3, npool)):
            src = ops[k][2]
            name = f"e{len(pool_names)}"
            ops.append(["def", name, retype(src)])
            pool_names.append(name)
        # ... and twins with only some of the constants re-typed: 4 + 4 next to 4 + 4.0
        def retype_some(t):
            if t[0] in ("i", "f", "b", "np"):
                return retype(t) if r.random() < 0.5 else t
            if t[0] == "n":
                return ["n", t[1], [retype_some(x) for x in t[2]]]
            if t[0] == "t":
                return ["t", [retype_some(x) for x in t[1]]]
            return t
        for k in range(min(2, npool)):
            name = f"e{len(pool_names)}"
            ops.append(["def", name, retype_some(ops[k][2])])
            pool_names.append(name)
        four = ["i", 4]
        for t in (["n", "Sum", [["t", [four, four]]]], ["n", "Sum", [["t", [four, ["f", "4.0"]]]]]):
            name = f"e{len(pool_names)}"
            ops.append(["def", name, t])
            pool_names.append(name)

    wide_name = None
    if mode == "strict" and fault_mode == "none" and r.random() < 0.04:
        # more distinct keys in one tree than any plausible bound on a cache
        wide_name = f"e{len(pool_names)}"
        ops.append(["def", wide_name, ["wide", r.choice(["Sum", "Product"]),
                                       r.randint(1050, 1500), ["r", r.choice(pool_names)]]])
    # instances (rewriting a class costs ~0.13 s, so only some runs use the optimizer)
    use_opt = mode == "strict" and r.random() < 0.4
    # several classes of one run are often rewritten with the same option set (as a code
    # base with one house style would)
    house_bits = "".join(r.choice("01") for _ in range(5))
    ninst = r.randint(2, 6)
    insts = []
    for n in range(ninst):
        fam = r.choice(fams)
        bits = None
        if fam == "plainopt" and not use_opt:
            fam = "ident"
        if fam in REWRITABLE and use_opt and (r.random() < 0.6 or fam == "plainopt"):
            for _ in range(20):
                bits = house_bits if r.random() < 0.5 else "".join(
                    r.choice("01") for _ in range(5))
                if fam == "state" and r.random() < 0.4:
                    # the option sets a class with a key of its own is typically given
                    bits = r.choice(["11001", "11101", "00001", "11000"])
                if valid_bits(fam, bits) and (bits != "00000" or fam != "plainopt"):
                    break
            else:
                bits = "00100"      # always a valid combination
        cfg = {}
        if fam in ("eval", "feval", "csemix_eval"):
            cfg["vars"] = {v: ["fr", r.randint(-5, 9), r.choice([1, 1, 2, 3])]
                           for v in ["x", "y", "z", "xa"]}
            ck = r.choice(["dict", "dict", "dict", "defaultdict", "late"])
            if ck == "defaultdict":
                # a context with implicit entries: names it has no item for get a default
                for v in r.sample(["x", "y", "z", "xa"], r.randint(1, 2)):
                    del cfg["vars"][v]
                cfg["ctx_kind"] = ck
                cfg["default"] = ["fr", r.randint(1, 9), 2]
            elif ck == "late":
                # the caller binds one more variable in its context after some calls
                v = r.choice(["x", "y", "z", "xa"])
                cfg["ctx_kind"] = ck
                cfg["late"] = {"var": v, "value": cfg["vars"].pop(v), "at": r.randint(1, 6)}
        elif fam in ("dep", "csemix_dep", "depcomp"):
            cfg["flags"] = {
                "include_subscripts": r.random() < 0.5, "include_lookups": r.random() < 0.5,
                "include_calls": r.choice([True, False, "descend_args"]),
                "include_cses": r.random() < 0.4}
        elif fam == "csemix_diff":
            cfg["var"] = r.choice(["x", "y"])
        elif fam.startswith("entry"):
            # module-level entry points called again and again with mappings that are == to one
            # another but hold differently typed values
            v = r.choice(["x", "y"])
            val = r.choice([1, 4])
            nested = ["n", "Sum", [["t", [["n", "Variable", [["s", "z"]]], ["i", val]]]]]
            nested_f = ["n", "Sum", [["t", [["n", "Variable", [["s", "z"]]], ["f", repr(float(val))]]]]]
            cfg["alts"] = [[[v, ["i", val]]], [[v, ["f", repr(float(val))]]],
                           [[v, ["np", "int64", repr(val)]]] if fam == "entry_eval"
                           else [[v, nested]],
                           [[v, ["fr", val, 1]]] if fam == "entry_eval" else [[v, nested_f]]]
            if fam == "entry_subst":
                # keys may be expression objects; the plain mapper only ever consults them
                # for variables, subscripts and lookups
                cfg["alts"][r.randrange(4)].append([["r", r.choice(pool_names)], ["i", 77]])
            if fam == "entry_eval":
                for a in cfg["alts"]:
                    for w in ["x", "y", "z", "xa"]:
                        if w != v:
                            a.append([w, ["fr", 3, 2]])
        elif fam == "subst":
            m = []
            for v in r.sample(["x", "y", "z", "xa"], r.randint(1, 3)):
                # (values without wrappers: the substitution family has a handler that feeds
                # one recursive call into another, and a wrapper that keeps substituting
                # itself back in would never end)
                cfg["typed"] = r.random() < 0.4    # replace plain variables only, not subclasses
            m.append([v, r.choice([["n", "Variable", [["s", r.choice(["x", "y", "q"])]]],
                                       ["n", "Sum", [["t", [["n", "Variable", [["s", "q"]]],
                                                            ["i", 1]]]]], ["i", 3]])])
            cfg["map"] = m
        insts.append({"inst": n, "family": fam, "opt": bits, "cfg": cfg,
                      "variant": pick_variant(r, fam, bits)})

    # definitions of rewritten classes, in a seeded order, some up front, some between calls
    defines = []
    for ins in insts:
        if ins["opt"] is not None:
            defines.append(["define", ins["family"], ins["opt"], ins["variant"]])
    # extra definitions that are never instantiated (they still mutate optimizer state)
    for _ in range(r.randint(0, 2)):
        fam = r.choice(sorted(REWRITABLE - {"plainopt"}))
        bits = house_bits if r.random() < 0.5 else "".join(r.choice("01") for _ in range(5))
        if use_opt:
            defines.append(["define", fam, bits, pick_variant(r, fam, bits)])
    r.shuffle(defines)
    n_up_front = r.randint(0, len(defines))
    ops += defines[:n_up_front]
    later = defines[n_up_front:]

    ncalls = r.randint(8, 40 if tier == "quick" else 60)
    last_expr = {}
    for c in range(ncalls):
        if later and r.random() < 0.2:
            ops.append(later.pop(0))
        ins = r.choice(insts)
        fam = ins["family"]
        variant = ins["variant"]
        x = r.random()
        if x < 0.04 and mode == "strict" and fam in ("ident", "hook", "plainopt", "twomod"):
            # user literal nodes of two classes that compare equal across the classes
            et = r.choice([["n", "IntLit", [["i", 7]]], ["n", "FloatLit", [["f", "7.0"]]]])
        elif x < 0.12 and mode == "strict":
            # bare typed constants at top level (the key has a type(expr) component)
            et = g.const(r.choice(["i", "f", "b", "npi"]), 4 if r.random() < 0.7 else 1)
            if r.random() < 0.3:
                # equal constants that do not convert alike: signed zeros, a real-valued
                # complex number
                et = r.choice([["i", 0], ["f", "-0.0"], ["f", "0.0"], ["i", 2], ["c", "2.0", "0.0"],
                               ["f", "2.0"]])
        elif x < 0.16 and mode == "strict":
            # a tuple of expressions is a legal (hashable) top-level input as well
            et = ["t", [["r", r.choice(pool_names)] for _ in range(r.randint(1, 3))]]
        elif x < 0.55:
            et = ["r", r.choice(pool_names)]
        elif x < 0.8:
            et = ["fresh", r.choice(pool_names)]
        elif ins["inst"] in last_expr and x < 0.9:
            et = last_expr[ins["inst"]]
        else:
            et = g.term(1)
        last_expr[ins["inst"]] = et
        args, kwargs = _gen_extras(r, fam, variant)
        fault = None
        if fault_mode != "none" and c >= 2 and r.random() < 0.25:
            if fault_mode == "handler_raise":
                site = {"walk": "visit", "combine": r.choice(["map_variable", "map_constant"])
                        }.get(fam, "map_variable")
                fault = {"kind": "handler_raise", "site": site, "nth": r.randint(1, 6)}
            elif fault_mode == "env_raise":
                site = "subst" if fam == "subst" else "env:" + r.choice(["f", "g", "h"])
                fault = {"kind": "env_raise", "site": site, "nth": r.randint(1, 4)}
            elif fault_mode == "stack":
                fault = {"kind": "stack_exhaustion", "extra": r.randint(3, 40)}
            elif fault_mode == "async":
                fault = {"kind": "async_interrupt", "nth": r.randint(1, 400)}
        knobs = {}
        if fam == "state" and r.random() < 0.4:
            knobs["mode"] = r.choice(["", "_a", "_b"])
        if fault is None and r.random() < 0.08:
            knobs["thread"] = True
        if r.random() < 0.05:
            # the live instance is snapshotted (pickled / copied) by its owner and used on
            knobs["snapshot"] = r.choice(["pickle", "deepcopy", "copy"])
        if fam in ("subst", "count") and fault is None and mode == "strict" and r.random() < 0.06:
            # a recycled instance: its owner runs __init__ on it again (with another
            # substitution for the substitution mapper) and goes on using it
            knobs["reinit"] = ([[v, r.choice([["n", "Variable", [["s", r.choice(["x", "q", "w"])]]],
                                               ["i", 5]])]
                                for v in r.sample(["x", "y", "z", "xa"], r.randint(1, 3))]
                               if fam == "subst" else True)
        ops.append(["call", ins, et, args, kwargs, fault] + ([knobs] if knobs else []))
    if wide_name is not None:
        ins = r.choice([i for i in insts if not i["family"].startswith(("entry", "csemix_diff"))]
                       or insts)
        a, kw = _gen_extras(r, ins["family"], ins["variant"])
        ops.insert(r.randint(len(ops) // 2, len(ops)), ["call", ins, ["r", wide_name], a, kw, None])
    ops += later
    return {"config": {"mode": mode, "fault_mode": fault_mode, "profile": profile},
            "ops": ops}

# }}}


# {{{ execution

class _Inst:
    def __init__(self):
        self.obj = None
        self.sim = None
        self.label = None
        self.cfg = None
        self.fakes = {}
        self.fake_log = []
        self.walk = []
        self.seen_walk = set()
        self.once = {}          # key -> started computations
        self.allow = {}         # key -> extra allowance from unwinding
        self.history = []       # (expr canon, argkey) of earlier calls
        self.seen_sub = []      # canon forms of all sub-expressions handed to it
        self.count_model = set()
        self.count_upper = set()
        self.async_hits = 0
        self.mode = ""
        self.live_ctx = None
        self.zero_forms = set()
        self.model = None
        self.inline_rec_no_cache = False
        self.faulted = False


SIGNED_ZERO_WHAT = ("0.0 and -0.0 are ==, hash alike and have one type: no cache key tells them "
                    "apart, [m(-0.0), m(0.0)] on one memoizing mapper answers the second call "
                    "with the first call's zero (D15)")


def _sha(x):
    return hashlib.sha1(jkey(x).encode()).hexdigest()[:12]


def _subexprs_canon(c, acc):
    if isinstance(c, list) and c and c[0] == "E":
        acc.append(c)
        for f in c[2]:
            _subexprs_canon(f, acc)
    elif isinstance(c, list) and c and c[0] in ("tuple", "list"):
        for f in c[1]:
            _subexprs_canon(f, acc)
    elif isinstance(c, list) and c and c[0] == "map":
        for _, v in c[2]:
            _subexprs_canon(v, acc)
    elif isinstance(c, list) and c and util._is_num(c):
        acc.append(c)


def model_cached_class(plain_cls, csemix):
    """Executable model of what the known finding D1 looks like: a *correct* look-aside
    cache over the plain class, keyed the way CachedMapper / CSECachingMapperMixin document
    -- which conflates composite nodes that are == but differ in a nested constant's type.
    Used only in the nested-variant configuration to classify a FreshModel mismatch."""
    from pymbolic.mapper import Mapper
    if csemix:
        class MC(plain_cls):
            def map_common_subexpression(self, expr, *args):
                d = self.__dict__.setdefault("_model_cse", {})
                k = (expr, *args)
                if k in d:
                    return d[k]
                r = self.map_common_subexpression_uncached(expr, *args)
                d[k] = r
                return r
    else:
        class MC(plain_cls):
            def __call__(self, expr, *args, **kwargs):
                d = self.__dict__.setdefault("_model_cache", {})
                k = (type(expr), expr, args, frozenset(kwargs.items()))
                try:
                    return d[k]
                except KeyError:
                    pass
                r = Mapper.__call__(self, expr, *args, **kwargs)
                d[k] = r
                return r
            rec = __call__
    return MC


def execute(scenario, open_sigs):
    import importlib
    import pymbolic.primitives as p
    from pymbolic.mapper.optimize import optimize_mapper
    from .obs import HandlerObserver
    from .simrt import FakeFunction, SimState

    template_init({})
    M = importlib.import_module("c05_mappers")
    cfg = scenario["config"]
    mode, fault_mode = cfg["mode"], cfg["fault_mode"]
    once_on = fault_mode in ("none", "handler_raise", "env_raise")

    @p.expr_dataclass()
    class SubVar(p.Variable):
        """no mapper has map_sub_var: dispatch goes through the MRO fallback path"""

    @p.expr_dataclass()
    class TagSum(p.Sum):
        mapper_method = "map_tagged"

    @p.expr_dataclass()
    class TagProduct(p.Product):
        mapper_method = "map_tagged"

    @p.expr_dataclass()
    class Opaque(p.Expression):
        """a node type no stock mapper has a handler for"""
        name: str

    class _Lit(p.Expression):
        """legacy nodes whose equality backend is overridden so that IntLit(7) == FloatLit(7.0)
        (the user's choice); they are still two node types"""
        init_arg_names = ("value",)

        def __init__(self, value):
            self.value = value

        def __getinitargs__(self):
            return (self.value,)

        def is_equal(self, other):
            return isinstance(other, _Lit) and self.value == other.value

        def get_hash(self):
            return hash(("lit", self.value))

    class IntLit(_Lit):
        mapper_method = "map_int_lit"

    class FloatLit(_Lit):
        mapper_method = "map_float_lit"

    B = spec.Builder({"SubVar": SubVar, "TagSum": TagSum, "TagProduct": TagProduct,
                      "Opaque": Opaque, "IntLit": IntLit, "FloatLit": FloatLit})
    obs = HandlerObserver()
    events, known, probes, faults, states = [], [], {}, {}, set()
    insts = {}
    optclasses = {}
    late_bound = {}
    reinit_map = {}
    pool_memo = {}
    violation = None
    steps = 0
    nontrivial = False
    any_fault_fired = False

    def probe(k, n=1):
        probes[k] = probes.get(k, 0) + n

    def viol(cls, detail):
        nonlocal violation
        if violation is None:
            violation = {"cls": cls, "detail": detail}

    def kf(sig, what):
        if sig in open_sigs:
            if not any(k["sig"] == sig for k in known):
                known.append({"sig": sig, "what": what})
            return True
        return False

    def define(fam, bits, variant=None):
        v = variant or variant_for(fam, bits)
        if v not in STRICTER[variant_for(fam, bits)]:
            v = variant_for(fam, bits)       # a shrunk option set may need another variant
        key = (fam, bits, v)
        if key in optclasses:
            return optclasses[key]
        if fam == "plainopt":
            base = getattr(M, f"PO_ident_{v}")
        else:
            base = getattr(M, f"C_{fam}_{v}")
        opts = {n: c == "1" for n, c in zip(OPT_NAMES, bits)}
        try:
            cls = optimize_mapper(**opts)(base)
        except Exception as e:  # noqa: BLE001
            optclasses[key] = e
            events.append(["define", fam, bits, "raised", type(e).__name__])
            return e
        optclasses[key] = cls
        probe("opt_classes_defined")
        events.append(["define", fam, bits, "ok"])
        return cls

    def make_fakes(st):
        st.fakes = {n: FakeFunction(n, st.sim, st.fake_log, co)
                    for n, co in (("f", (3, 5, 7, 11)), ("g", (2, 9, 4, 6)),
                                  ("h", (8, 1, 3, 5)))}

    class EntryPoint:
        """adapter: a public module-level entry point seen as a long-lived server"""
        def __init__(self, fam, cached, alts):
            self.fam, self.cached, self.alts = fam, cached, alts

        def __call__(self, expr, k=0):
            from pymbolic.mapper.evaluator import (CachedEvaluationMapper, EvaluationMapper,
                                                   evaluate)
            from pymbolic.mapper.substitutor import (CachedSubstitutionMapper,
                                                     SubstitutionMapper, substitute)
            if self.fam == "entry_count":
                if self.cached:
                    from pymbolic.mapper.analysis import get_num_nodes
                    return get_num_nodes(expr)
                # the documented meaning: nodes that occur repeatedly are counted once, and a
                # node is (type, value) -- counted here with a plain walk and a dict
                # (sub-trees below a node that was counted before are not looked at again, as
                # documented for the key (type, value))
                w = M.P_walkset()
                w(expr)
                seen, count, skip_depth = set(), 0, 0
                for what, x in w.events:
                    if skip_depth:
                        skip_depth += 1 if what == "v" else -1
                        continue
                    if what == "v":
                        if (type(x), x) in seen:
                            skip_depth = 1
                    else:
                        seen.add((type(x), x))
                        count += 1
                return count
            m = dict(self.alts[k % len(self.alts)])
            if self.fam == "entry_subst":
                return substitute(expr, m, mapper_cls=CachedSubstitutionMapper
                                  if self.cached else SubstitutionMapper)
            m.update({"f": abs, "g": abs, "h": abs})
            return evaluate(expr, m, mapper_cls=CachedEvaluationMapper
                            if self.cached else EvaluationMapper)

    def construct(cls, ins, st, fresh):
        fam, c = ins["family"], ins["cfg"]
        if fam.startswith("entry"):
            alts = [[(B.build(k, fresh=True) if isinstance(k, list) else k,
                      B.build(v, fresh=True)) for k, v in alt] for alt in c.get("alts", [[]])]
            return EntryPoint(fam, cls == "cached", alts or [[]])
        if fam in ("eval", "feval", "csemix_eval"):
            ctx = {k: B.build(v) for k, v in c.get("vars", {}).items()}
            if c.get("ctx_kind") == "defaultdict":
                import collections
                dv = B.build(c["default"])
                d = collections.defaultdict(lambda dv=dv: dv)
                d.update(ctx)
                ctx = d
            elif c.get("ctx_kind") == "late" and late_bound.get(ins["inst"]):
                ctx[c["late"]["var"]] = B.build(c["late"]["value"])
            sim = SimState()
            log = []
            fk = {n: FakeFunction(n, sim, log, co)
                  for n, co in (("f", (3, 5, 7, 11)), ("g", (2, 9, 4, 6)), ("h", (8, 1, 3, 5)),
                                ("nul", None))}
            ctx.update(fk)
            ctx["abs"] = abs
            if not fresh:
                st.sim, st.fake_log, st.fakes = sim, log, fk
                st.live_ctx = ctx
            return cls(ctx)
        if fam in ("dep", "csemix_dep", "depcomp"):
            return cls(**c.get("flags", {}))
        if fam == "csemix_diff":
            return cls(p.Variable(c.get("var", "x")))
        if fam == "subst":
            mp = {k: B.build(v, fresh=True)
                  for k, v in reinit_map.get(ins["inst"], c.get("map", []))}
            sim = SimState()
            if not fresh:
                st.sim = sim

            typed = bool(c.get("typed"))

            def subst_func(e, mp=mp, sim=sim, typed=typed):
                sim.hit("subst")
                if (type(e) is p.Variable) if typed else isinstance(e, p.Variable):
                    return mp.get(e.name)
                return None
            return cls(subst_func)
        return cls()

    def classes_for(ins):
        fam, bits = ins["family"], ins["opt"]
        if fam == "csemix_eval":
            return M.P_eval, M.P_eval_nc
        if fam == "csemix_dep":
            return M.P_dep, M.P_dep_nc
        if fam == "csemix_diff":
            return M.P_diff, M.P_diff_nc
        if fam.startswith("entry"):
            return "cached", "plain"
        if fam == "plainopt":
            plain = M.P_ident
            memo = define(fam, bits, ins.get("variant")) if bits else M.PO_ident_0
            return memo, plain
        if fam == "count":
            plain = M.P_walkset
        elif fam == "eval":
            plain = M.P_eval_nc
        elif fam == "feval":
            plain = M.P_feval
        elif fam in ("dep", "depcomp"):
            plain = M.P_dep_nc
        else:
            plain = getattr(M, f"P_{fam}")
        if bits is None:
            return getattr(M, f"C_{fam}_0"), plain
        return define(fam, bits, ins.get("variant")), plain

    def get_inst(ins):
        n = ins["inst"]
        st = insts.get(n)
        if st is not None:
            return st
        st = _Inst()
        st.cfg = ins
        memo_cls, _ = classes_for(ins)
        if isinstance(memo_cls, Exception):
            st.obj = memo_cls
            insts[n] = st
            return st
        st.obj = construct(memo_cls, ins, st, fresh=False)
        if st.sim is None:
            st.sim = SimState()
        st.obj.__dict__["_sim"] = st.sim
        st.obj.__dict__["_walk"] = st.walk
        st.label = f"m{n}"
        bits = ins["opt"]
        st.inline_rec_no_cache = bool(bits and bits[2] == "1" and bits[3] == "0"
                                      and ins["family"] != "plainopt")
        obs.watch(st.obj, st.label)
        if mode == "nv" and not ins["family"].startswith("entry"):
            memo_cls2, plain_cls = classes_for(ins)
            csemix = ins["family"].startswith("csemix")
            st.model = construct(
                model_cached_class(memo_cls2 if csemix else plain_cls, csemix),
                ins, None, fresh=True)
        insts[n] = st
        return st

    def cache_state(st):
        keys = []
        for attr in ("_cache", "_cse_cache_dict"):
            d = getattr(st.obj, attr, None)
            if isinstance(d, dict):
                keys += [jkey(canon(k, obs.memo)) for k in d]
        keys.sort()
        return hashlib.sha1("\n".join(keys).encode()).hexdigest()[:10], len(keys)

    def call(obj, e, a, kw):
        try:
            return ("ok", obj(e, *a, **kw))
        except InjectedFault as ex:
            return ("fault", ex)
        except InjectedInterrupt as ex:
            return ("interrupt", ex)
        except RecursionError as ex:
            return ("recursion", ex)
        except Exception as ex:  # noqa: BLE001
            return ("exc", ex)

    obs.start()
    try:
        for opi, op in enumerate(scenario["ops"]):
            if violation is not None:
                break
            steps += 1
            kind = op[0]
            if kind == "def":
                obs_active = obs.active
                if obs_active:
                    sys.setprofile(None)
                o = B.define(op[1], op[2])
                canon(o, obs.memo)
                pool_memo.update(obs.memo)
                if obs_active:
                    sys.setprofile(obs._prof)
                continue
            if kind == "define":
                if obs.active:
                    sys.setprofile(None)
                define(op[1], op[2], op[3] if len(op) > 3 else None)
                if obs.active:
                    sys.setprofile(obs._prof)
                continue
            if kind != "call":
                continue
            _, ins, et, targs, tkwargs, fault = op[:6]
            knobs = op[6] if len(op) > 6 else {}
            prof_was = obs.active
            if prof_was:
                sys.setprofile(None)
            st = get_inst(ins)
            fam = ins["family"]
            if isinstance(st.obj, Exception):
                events.append(["call", ins["inst"], "class-definition-raised",
                               type(st.obj).__name__])
                # the optimizer refusing a class is not a C05 matter; record and go on
                probe("opt_definition_raised")
                if prof_was:
                    sys.setprofile(obs._prof)
                continue
            late = ins["cfg"].get("late")
            if late and not late_bound.get(ins["inst"]) and len(st.history) >= late["at"] \
                    and st.live_ctx is not None:
                # the caller's own dict gets one more binding; the mapper was handed that dict
                st.live_ctx[late["var"]] = B.build(late["value"])
                late_bound[ins["inst"]] = True
                if st.model is not None and isinstance(getattr(st.model, "context", None), dict):
                    st.model.context[late["var"]] = B.build(late["value"])
                probe("late_bindings")
            if knobs.get("snapshot"):
                import copy as _copy
                import pickle as _pickle
                try:
                    {"pickle": lambda o: _pickle.dumps(o), "deepcopy": _copy.deepcopy,
                     "copy": _copy.copy}[knobs["snapshot"]](st.obj)
                    probe("instance_snapshots")
                except Exception:  # noqa: BLE001
                    pass            # fakes and closures in a context need not be picklable
            if knobs.get("reinit") and fam in ("subst", "count") and not st.faulted:
                if fam == "subst":
                    reinit_map[ins["inst"]] = knobs["reinit"]
                    mp2 = {k: B.build(v, fresh=True) for k, v in knobs["reinit"]}
                    sim2 = st.sim

                    typed2 = bool(ins["cfg"].get("typed"))

                    def subst_func2(e_, mp=mp2, sim=sim2, typed=typed2):
                        sim.hit("subst")
                        if (type(e_) is p.Variable) if typed else isinstance(e_, p.Variable):
                            return mp.get(e_.name)
                        return None
                    st.obj.__init__(subst_func2)
                else:
                    st.obj.__init__()
                # from here on it is held to what a new instance would do
                st.once.clear()
                st.allow.clear()
                st.count_model.clear()
                st.count_upper.clear()
                st.async_hits = 0
                probe("instances_reinitialised")
            if "mode" in knobs and fam == "state":
                st.mode = knobs["mode"]
                st.obj.mode = st.mode
                probe("mode_changes")
            e = B.build(et)
            a = tuple(B.build(t) for t in targs)
            kw = {k: B.build(t) for k, t in tkwargs}
            ec = canon(e, obs.memo)
            argkey = jkey([canon(a), canon(kw)])
            if et[0] == "fresh":
                probe("fresh_rebuild_keys")
            if util._is_num(ec):
                probe("toplevel_typed_constants")
            sub = []
            _subexprs_canon(ec, sub)
            for c in sub:
                if util._is_num(c) and len(c) == 2 and c[1] in ("0.0", "-0.0"):
                    st.zero_forms.add((c[0], c[1]))
            both_zeros = any((t, "0.0") in st.zero_forms and (t, "-0.0") in st.zero_forms
                             for t, _ in st.zero_forms)

            # ---- reference: non-memoizing counterpart, applied afresh, no faults
            _, plain_cls = classes_for(ins)
            fresh_obj = construct(plain_cls, ins, None, fresh=True)
            if fam == "state":
                fresh_obj.mode = st.mode
            fresh_walk = []
            fresh_obj.__dict__["_walk"] = fresh_walk
            mgot = None
            if st.model is not None:
                mgot = call(st.model, e, (), {}) if fam == "count" else call(st.model, e, a, kw)
            obs.watched[id(fresh_obj)] = "fresh"
            fmark = obs.mark()
            sys.setprofile(obs._prof)
            if fam == "count":
                want = call(fresh_obj, e, (), {})
            else:
                want = call(fresh_obj, e, a, kw)
            sys.setprofile(None)
            obs.stack.clear()
            del obs.watched[id(fresh_obj)]
            fresh_keys = {c.key for c in obs.since(fmark)
                          if fam.startswith("csemix") == (
                              c.handler == "map_common_subexpression_uncached")}
            obs.release_frames(fmark)

            if fam == "count":
                st.count_upper.update(jkey(c) for c in sub)
                st.count_upper.update(jkey(canon(x, obs.memo)) for x in fresh_obj.nodes)

            # ---- the long-lived instance, possibly with a fault
            st.sim.disarm()
            fired_before = st.sim.fired
            old_limit = sys.getrecursionlimit()
            fkind = fault["kind"] if fault else None
            tracer = None
            if fkind in ("handler_raise", "env_raise"):
                st.sim.arm(fault["site"], fault["nth"])
            walk_mark = len(st.walk)
            mark = obs.mark()
            if prof_was:
                sys.setprofile(obs._prof)
            if fkind == "stack_exhaustion":
                depth = 0
                fr = sys._getframe()
                while fr is not None:
                    depth += 1
                    fr = fr.f_back
                sys.setrecursionlimit(depth + 8 + fault["extra"])
            elif fkind == "async_interrupt":
                cnt = [0, fault["nth"]]

                def tracer(frame, event, arg, cnt=cnt):
                    fn = frame.f_code.co_filename
                    if "pymbolic" not in fn and "c05_mappers" not in fn:
                        return None

                    def local(frame, event, arg):
                        if event == "line":
                            cnt[0] += 1
                            if cnt[0] == cnt[1]:
                                raise InjectedInterrupt("async")
                        return local
                    return local
                sys.settrace(tracer)
            try:
                if knobs.get("thread") and fkind is None:
                    # the same long-lived instance, used from another caller thread (one
                    # caller at a time)
                    import threading
                    box = []

                    def in_thread():
                        if prof_was:
                            sys.setprofile(obs._prof)
                        try:
                            box.append(call(st.obj, e, a, kw))
                        finally:
                            sys.setprofile(None)
                    th = threading.Thread(target=in_thread)
                    th.start()
                    th.join()
                    got = box[0]
                    probe("calls_from_another_thread")
                else:
                    got = call(st.obj, e, a, kw)
            finally:
                if fkind == "async_interrupt":
                    sys.settrace(None)
                if fkind == "stack_exhaustion":
                    sys.setrecursionlimit(old_limit)
            if prof_was:
                sys.setprofile(None)
            st.sim.disarm()
            fired = st.sim.fired > fired_before
            if got[0] in ("fault", "interrupt", "recursion"):
                faults[fkind or got[0]] = faults.get(fkind or got[0], 0) + 1
                any_fault_fired = True
                st.faulted = True
                if got[0] == "interrupt":
                    st.async_hits += 1

            # ---- OnceModel bookkeeping
            comps = [c for c in obs.since(mark) if c.inst == st.label]
            if got[0] != "ok":
                live = obs.frames_of_traceback(got[1])
                for cpt in comps:
                    if cpt.frame is not None and id(cpt.frame) in live:
                        st.allow[cpt.key] = st.allow.get(cpt.key, 0) + 1
            for cpt in comps:
                if cpt.inst != st.label:
                    continue
                if fam.startswith("csemix") != (
                        cpt.handler == "map_common_subexpression_uncached"):
                    continue
                if fam == "plainopt":
                    continue
                # (a key of the state family is a key under the instance's current setting)
                okey = cpt.key if fam != "state" else st.mode + "|" + cpt.key
                n = st.once[okey] = st.once.get(okey, 0) + 1
                if once_on and n > 1 + st.allow.get(cpt.key, 0):
                    what = ("optimize_mapper(inline_rec=True, inline_cache=False) on a cached "
                            "mapper bypasses the cache for recursive dispatch: shared "
                            "sub-expressions are recomputed (D8)")
                    if st.inline_rec_no_cache and kf("optimizer-inline-rec-bypasses-cache", what):
                        pass
                    else:
                        viol(f"C05/at-most-once/{fam}" + ("/opt" if ins["opt"] else ""),
                             {"op": opi, "instance": ins, "handler": cpt.handler,
                              "key": cpt.key[:400], "count": n})
            obs.release_frames(mark)

            # ---- FreshModel
            def outcome_repr(o):
                if o[0] == "ok":
                    return ["ok", canon(o[1])]
                return [o[0], type(o[1]).__name__]

            ok = True
            detail = None
            new_walk = set()
            if fam == "walk":
                # whatever the outcome, what this call visited has been seen by the instance
                new_walk = {(w, jkey(canon(x, obs.memo)), jkey(canon([m, t])))
                            for (w, x, m, t) in st.walk[walk_mark:]}
            if fkind == "async_interrupt" and got[0] == "interrupt":
                pass    # the interrupted call may raise the injected interrupt
            elif fkind == "stack_exhaustion" and got[0] == "recursion":
                pass
            elif fired:
                if got[0] != "fault":
                    ok = False
                    detail = "injected fault fired but the call did not propagate it"
            elif fam == "walk":
                if got[0] != want[0] or (got[0] != "ok"
                                         and type(got[1]) is not type(want[1])):
                    ok = False
                    detail = "walk outcome differs"
                else:
                    freshv = {(w, jkey(canon(x, obs.memo)), jkey(canon([m, t])))
                              for (w, x, m, t) in fresh_walk}
                    if got[0] == "ok" and (st.seen_walk | new_walk) != (st.seen_walk | freshv):
                        def zn(ss):
                            return {tuple(x.replace('"-0.0"', '"0.0"') for x in t) for t in ss}
                        if both_zeros and zn(st.seen_walk | new_walk) == zn(st.seen_walk | freshv) \
                                and kf("signed-zero-conflation", SIGNED_ZERO_WHAT):
                            pass
                        else:
                            ok = False
                            detail = "set of visited nodes differs from the plain walk"
            elif fam == "count":
                # the nodes whose walk the plain walker completed (all of them, or on a walk
                # that fails the ones before the failure) are what the instance has counted
                for x in fresh_obj.done:
                    st.count_model.add(jkey(canon(x, obs.memo)))
                if got[0] != want[0] or (got[0] != "ok" and type(got[1]) is not type(want[1])):
                    ok = False
                    detail = "node count outcome differs"
                else:
                    if st.obj.count != len(st.count_model):
                        if both_zeros and st.obj.count == len({k.replace('"-0.0"', '"0.0"')
                                                               for k in st.count_model}) and kf(
                                "signed-zero-conflation", SIGNED_ZERO_WHAT):
                            pass
                        elif mode == "nv" and mgot is not None and mgot[0] == "ok" \
                                and st.obj.count == len(st.model.nodes) and kf(
                                "nested-typed-constant-conflation",
                                "cache keys distinguish constant types at top level only: "
                                "x+4 and x+4.0 share one entry (D1)"):
                            pass
                        elif (fault_mode == "async" or st.faulted) and (
                                len(st.count_model) <= st.obj.count
                                <= len(st.count_upper) + st.async_hits):
                            # after an injected fault the exact set of completed nodes is not
                            # known; it lies between the completed walks and everything seen
                            # (an asynchronous interrupt may land between a node being counted
                            # and its key being stored: one recount per such interrupt)
                            pass
                        elif st.inline_rec_no_cache and st.obj.count > len(st.count_model) \
                                and kf("optimizer-inline-rec-bypasses-cache",
                                       "NodeCountMapper rewritten with inline_rec and without "
                                       "inline_cache counts shared nodes repeatedly (D8)"):
                            pass
                        else:
                            ok = False
                            detail = (f"accumulated count {st.obj.count} != "
                                      f"{len(st.count_model)} distinct nodes")
            else:
                g_r, w_r = outcome_repr(got), outcome_repr(want)
                if g_r != w_r:
                    ok = False
                    detail = {"got": g_r, "want": w_r}
                    if both_zeros and jkey(g_r).replace('"-0.0"', '"0.0"') == jkey(w_r).replace(
                            '"-0.0"', '"0.0"') and kf("signed-zero-conflation", SIGNED_ZERO_WHAT):
                        ok = True
                        detail = None
                    elif mode == "nv" and mgot is not None \
                            and outcome_repr(mgot) == g_r and kf(
                                "nested-typed-constant-conflation",
                                "cache keys distinguish constant types at top level "
                                "only: x+4 and x+4.0 share one entry, the second call "
                                "returns the first call's result (D1)"):
                        ok = True
                        detail = None
            st.seen_walk |= new_walk
            if not ok:
                viol(f"C05/fresh-mismatch/{fam}" + ("/opt" if ins["opt"] else ""),
                     {"op": opi, "instance": ins, "expr": str(ec)[:600], "args": argkey,
                      "fault": fault, "detail": detail})

            st.history.append((_sha(ec), argkey))
            if got[0] != "ok":
                probe("exception_calls")

            # ---- reach: was (part of) this call served from the cache?
            sig, nkeys = cache_state(st)
            states.add(sig)
            hit = False
            if got[0] == "ok" and want[0] == "ok" and fam != "plainopt":
                mine = {cpt.key for cpt in comps
                        if fam.startswith("csemix") == (
                            cpt.handler == "map_common_subexpression_uncached")}
                # a from-scratch computation needed keys this call did not compute
                hit = bool(fresh_keys - mine)
            if hit:
                probe("cache_hit_calls")
                nontrivial = True
                if st.faulted:
                    probe("post_fault_hit_calls")
            events.append(["call", opi, ins["inst"], got[0],
                           _sha(outcome_repr(got)), nkeys, len(comps)])
            # let temporaries die the way they do in real use: the simulator keeps no
            # reference to anything but the pool, so addresses of dead expressions are recycled
            obs.release_frames(0)
            obs.log.clear()
            obs._keep[:] = [x.obj for x in insts.values() if not isinstance(x.obj, Exception)]
            obs.memo = dict(pool_memo)
            e = a = kw = got = want = fresh_obj = mgot = comps = cpt = fresh_keys = None
            fresh_walk = new_walk = None
            if prof_was:
                sys.setprofile(obs._prof)
    finally:
        if obs.active:
            obs.stop()
        sys.settrace(None)

    # instances never influence each other: covered by each being held to its own
    # counterpart on every call.
    return {"events": events, "violation": violation, "known": known, "probes": probes,
            "faults": faults, "nontrivial": nontrivial, "steps": steps + obs.calls,
            "states": sorted(states)[:64]}

# }}}


# {{{ shrinking helpers

def simplifications(scn):
    ops = scn["ops"]
    for i, op in enumerate(ops):
        if op[0] == "call":
            _, ins, et, a, kw, fault = op[:6]
            cands = []
            if fault is not None:
                cands.append(["call", ins, et, a, kw, None])
            if kw:
                cands.append(["call", ins, et, a, [], fault])
            if a:
                cands.append(["call", ins, et, [], kw, fault])
            if len(kw) > 1:
                cands.append(["call", ins, et, a, kw[:1], fault])
            for s in spec.subterms(et):
                if spec.is_expr_term(s):
                    cands.append(["call", ins, s, a, kw, fault])
            if ins["opt"] is not None:
                for b in range(5):
                    if ins["opt"][b] == "1":
                        nb = ins["opt"][:b] + "0" + ins["opt"][b + 1:]
                        ni = dict(ins)
                        ni["opt"] = nb
                        cands.append(["call", ni, et, a, kw, fault])
            for c in cands:
                yield {"config": scn["config"], "ops": ops[:i] + [c] + ops[i + 1:]}
        elif op[0] == "def":
            for s in spec.subterms(op[2]):
                if spec.is_expr_term(s) or s[0] in ("i", "f"):
                    yield {"config": scn["config"],
                           "ops": ops[:i] + [["def", op[1], s]] + ops[i + 1:]}
            for j, s in enumerate(spec.subterms(op[2])):
                pass

# }}}
