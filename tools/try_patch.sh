#!/bin/sh
# usage: tools/try_patch.sh <patch.diff> <PROP> [extra args for ./check]
# Runs a check against a scratch copy of /repo/pymbolic with the patch applied
# (through VERIF_REPO); /repo itself is not touched.  The scratch copy is removed afterwards.
set -e
PATCH=$(readlink -f "$1"); PROP=$2; shift 2
TMP=$(mktemp -d /tmp/verif-try-XXXXXX)
trap 'rm -rf "$TMP"' EXIT
cp -r /repo/pymbolic "$TMP/pymbolic"
( cd "$TMP" && patch -p1 -s < "$PATCH" )
cd /verif
VERIF_REPO="$TMP" VERIF_REPLAY_DIR="$TMP/replays" ./check "$PROP" --no-evidence "$@" | grep -E "^(VIOLATION|KNOWN|HARNESS|runs=)" | cut -c1-220 | sort | uniq -c | sort -rn | head -12
# show one minimised violation
f=$(ls "$TMP"/replays/*.json 2>/dev/null | head -1)
if [ -n "$f" ]; then /venv/bin/python -c "
import json,sys
d=json.load(open('$f')); print('minimised ops:', d['minimised_ops'], 'of', d['original_ops']); print(json.dumps(d['violation'])[:700])"; fi
