#!/venv/bin/python
"""Regenerates /verif/MANIFEST.json (kept under version control; edit the tables here)."""
import json, os
HERE = os.path.dirname(os.path.dirname(os.path.abspath(__file__)))
old = json.load(open(os.path.join(HERE, "MANIFEST.json")))

CHECKS = {
 "C01": dict(
   text="Seeded search over op histories (hash, ==, look-ups, copy, pickle, mapper passes, rebinding attempts, async interrupts inside __eq__/__hash__) on shared pools of expression objects over every built-in node class plus user classes created in the run, sequentially and from 2-4 caller threads under a seeded line/opcode-level scheduler; every observation is compared with an independent structural model. Evidence over the sampled histories and schedules, not proof; this is the right level because the property is about what no history of touching operations can do to an object's equality class and hash.",
   note="Trusts CPython's dict/set/pickle/copy and the simulator's own canon() reader of dataclass fields; T-mode pre-empts at line/opcode granularity under the GIL; Rational/Polynomial excluded by design; one open known finding (legacy fields not frozen).",
   technique="deterministic simulation: seeded op histories + seeded thread schedules with fault injection (rebind/delete, async interrupt), structural reference model, ddmin, exact replay",
   ref="DESIGN.md section 3/C01"),
 "C05": dict(
   text="Long-lived memoizing mapper instances (all cached stock mappers, NodeCountMapper, FlopCounter, CSE mix-in users, classes rewritten by optimize_mapper under every valid option set and in a seeded definition order) serve seeded call histories; each call is compared with the non-memoizing counterpart applied afresh and the handler-entry log (sys.setprofile) is checked for at-most-once per typed key; faults (handler raise, environment raise, stack exhaustion, async interrupt) are injected inside calls and the same instance keeps being used. Exploration-level evidence; the property is about call histories and option combinations, which only a history search reaches.",
   note="Trusts the non-memoizing stock mappers as the reference (differential), sys.setprofile delivery, and that extras that are == but differently typed are out of scope; three open known findings (D1, D8, D15 signed zeros) are classified by narrow executable models and configurations that can hit them are kept apart from the strict ones.",
   technique="deterministic simulation: seeded call histories on stateful mapper instances with injected faults, fresh-counterpart and at-most-once oracles, ddmin, exact replay",
   ref="DESIGN.md section 3/C05"),
 "C12": dict(
   text="tag_common_subexpressions output is evaluated by fresh and reused evaluator instances whose environment consists of instrumented fakes; value preservation against plain evaluation of the untagged input, once-per-wrapper over an evaluator's whole life, and the work-sharing bound of the statement are checked over the recorded handler log; environment functions raise mid-evaluation and the evaluator is reused.",
   note="Differential against pymbolic's own plain EvaluationMapper on the untransformed input (exact rationals); the once-only sentence is read in its weakest literal form (DESIGN.md); D1 applies in a separate configuration; D14 (the histogram tagger folds 'false' pre-existing wrappers to 0) is an open known finding classified by an executable model.",
   technique="deterministic simulation: seeded evaluation histories on stateful evaluators with injected environment faults, handler-log oracles, ddmin, exact replay",
   ref="DESIGN.md section 3/C12"),
 "C14": dict(
   text="A lineage of CCodeMapper instances (copies, copies with mapped CSEs) is fed a seeded history of expressions; a name-table reference model is checked after every emission and the accumulated assignments plus expressions are compiled with gcc and run against the evaluator (exact for integers, 1e-7 relative after a conditioning filter for floats); unsupported nodes raise mid-emit and the mapper is reused.",
   note="Trusts gcc/libm (g++/libstdc++ for programs with complex constants) and pymbolic's EvaluationMapper as the value reference; only the C-expressible fragment described in DESIGN.md is generated; ill-conditioned and out-of-range programs are discarded and counted.",
   technique="deterministic simulation: seeded emission histories over a stateful mapper lineage with injected mid-emit faults, name-table model, compile-and-run oracle, ddmin, exact replay",
   ref="DESIGN.md section 3/C14"),
 "C17": dict(
   text="2-4 real interpreter processes with different PYTHONHASHSEED and -O exchange pickle bytes through a simulator-owned store under one seeded schedule (hash-before-dump, any delivery order, duplicates, crash+restart under a new hash seed with only stored bytes surviving); every loaded object is compared with a locally built twin (==, hash, dict/set look-up) and persistent digests are compared across all nodes and incarnations.",
   note="Nodes are real CPython processes (forked from pristine per-configuration zygotes, plus a sample started from scratch); byte corruption is out of the property's scope; only one request is outstanding at a time.",
   technique="deterministic simulation: multi-process nodes over a simulated store with crash/restart, duplication and reordering faults, per-node twin oracle and cross-node digest agreement, ddmin, exact replay",
   ref="DESIGN.md section 3/C17"),
}
ENABLED = [p for p in ["C01", "C05", "C12", "C14", "C17"]
           if os.path.exists(os.path.join(HERE, "dst", p.lower() + ".py"))]
checks = []
for p in ENABLED:
    c = CHECKS[p]
    checks.append({
        "property_id": p,
        "quick_cmd": f"./check {p} --tier quick",
        "thorough_cmd": f"./check {p} --tier thorough",
        "evidence_file": f"/verif/evidence/{p}.json",
        "replay_cmd_template": f"./check {p} --replay {{path}}",
        "engine": "dst",
        "level_claimed": {"category": "exploration", "text": c["text"], "design_ref": c["ref"]},
        "level_note": c["note"],
        "technique": c["technique"],
    })
old["checks"] = checks
old["hooks"]["source_commits"] = []
old["not_applicable"] = [e for e in old["not_applicable"]
                         if e["property_id"] not in CHECKS]
for p in CHECKS:
    if p not in ENABLED:
        old["not_applicable"].append({"property_id": p, "reason":
            "applicable (designed in DESIGN.md) but not claimed at this commit: its check is "
            "still under construction"})
old["not_applicable"].sort(key=lambda e: e["property_id"])
json.dump(old, open(os.path.join(HERE, "MANIFEST.json"), "w"), indent=1)
print("checks:", ENABLED, "n/a:", len(old["not_applicable"]))
