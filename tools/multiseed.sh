#!/bin/sh
# usage: tools/multiseed.sh "1 2 3 4" [PROPS...]   quick tier of every check under several base seeds
SEEDS=${1:-"1 2 3 4 5 6"}; shift
PROPS=${@:-"C01 C05 C12 C14 C17"}
cd "$(dirname "$0")/.."
for s in $SEEDS; do for p in $PROPS; do
  out=$(VERIF_SEED=$s ./check $p --tier quick --no-evidence 2>&1); rc=$?
  echo "seed=$s $p exit=$rc $(echo "$out" | grep -E '^runs' | cut -c1-60)"
  [ $rc -ne 0 ] && echo "$out" | grep -E "VIOLATION|HARNESS" | head -3
done; done
