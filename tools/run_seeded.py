#!/venv/bin/python
"""Regression suite of the checks themselves: every independently written breaking change
under /verif/seeded/ is applied to a scratch copy of /repo/pymbolic and the check of the
property it breaks must report a VIOLATION.   usage: tools/run_seeded.py [ids...] [--budget S]"""
import json, os, shutil, subprocess, sys, tempfile
HERE = os.path.dirname(os.path.dirname(os.path.abspath(__file__)))
args = [a for a in sys.argv[1:] if not a.startswith("--")]
budget = "60"
if "--budget" in sys.argv:
    budget = sys.argv[sys.argv.index("--budget") + 1]
    args = [a for a in args if a != budget]
rows = []
for sid in sorted(os.listdir(os.path.join(HERE, "seeded"))):
    if args and not any(sid.startswith(a) for a in args):
        continue
    meta = json.load(open(os.path.join(HERE, "seeded", sid, "meta.json")))
    prop = meta.get("also_breaks") if sid.startswith("S01") else meta["breaks_property"]
    tmp = tempfile.mkdtemp(prefix="verif-seeded-")
    try:
        shutil.copytree("/repo/pymbolic", os.path.join(tmp, "pymbolic"),
                        ignore=shutil.ignore_patterns("__pycache__"))
        p = subprocess.run(["patch", "-p1", "-s", "-i", os.path.join(HERE, "seeded", sid, "patch.diff")],
                           cwd=tmp, capture_output=True, text=True)
        if p.returncode != 0:
            rows.append((sid, prop, "PATCH DOES NOT APPLY (tree changed?)"))
            print(*rows[-1], flush=True)
            continue
        env = dict(os.environ, VERIF_REPO=tmp, VERIF_REPLAY_DIR=os.path.join(tmp, "replays"))
        c = subprocess.run([os.path.join(HERE, "check"), prop, "--no-evidence", "--runs", "6400",
                            "--budget", budget], env=env, cwd=HERE, capture_output=True, text=True)
        classes = sorted({ln.split("class=")[-1].split()[0] for ln in c.stdout.splitlines()
                          if ln.startswith("VIOLATION") and "class=" in ln})
        if meta.get("expected") == "not-caught" and c.returncode == 0:
            # a change kept on record whose trigger lies outside what the check generates
            rows.append((sid, prop, "not caught, as recorded: " + meta.get("why_not", "")[:100]))
        else:
            rows.append((sid, prop, ("caught: " + ", ".join(classes)[:120]) if c.returncode == 1
                         else f"MISSED (exit {c.returncode})"))
    finally:
        shutil.rmtree(tmp, ignore_errors=True)
    print(*rows[-1], flush=True)
bad = [r for r in rows if not r[2].startswith(("caught", "not caught, as recorded"))]
rec = [r for r in rows if r[2].startswith("not caught, as recorded")]
print(f"{len(rows) - len(bad) - len(rec)}/{len(rows)} caught"
      + (f", {len(rec)} on record as out of reach" if rec else ""))
sys.exit(1 if bad else 0)
