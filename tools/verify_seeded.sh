#!/bin/sh
# usage: tools/verify_seeded.sh <worktree> <seeded-name>
# Confirms an independently written breaking change: demo passes on clean code, fails with
# the patch, and the pinned test suite still passes with the patch.  Restores the worktree.
WT=$1; N=$2; D=$WT/seeded/$N
cd $WT || exit 9
git checkout -q -- pymbolic
PYTHONPATH=$WT timeout 600 /venv/bin/python $D/demo.py > /tmp/vs_clean.out 2>&1; c=$?
git apply $D/patch.diff || { echo "$N: PATCH DOES NOT APPLY"; exit 9; }
PYTHONPATH=$WT timeout 600 /venv/bin/python $D/demo.py > /tmp/vs_patched.out 2>&1; p=$?
t=$(PYTHONPATH=$WT timeout 900 /venv/bin/python -m pytest -q -p no:cacheprovider --timeout=900 test/ 2>&1 | grep -E "passed|failed|error" | tail -1)
git checkout -q -- pymbolic
echo "$N: clean_exit=$c patched_exit=$p tests: $t"
tail -2 /tmp/vs_patched.out | cut -c1-200
