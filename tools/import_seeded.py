#!/venv/bin/python
"""usage: import_seeded.py <worktree> <name> <seeded-id> <property> <json-extra>
Copies an independently written breaking change into /verif/seeded/<id>/ with meta.json."""
import json, os, shutil, sys
wt, name, sid, prop, extra = sys.argv[1:6]
src = os.path.join(wt, "seeded", name)
dst = os.path.join("/verif/seeded", sid)
os.makedirs(dst, exist_ok=True)
for f in ("patch.diff", "demo.py", "notes.txt"):
    shutil.copy(os.path.join(src, f), os.path.join(dst, f))
meta = {"id": sid, "name": name, "breaks_property": prop,
        "written_by": "fresh sub-agent given only the property text and its own scratch worktree",
        "needs_to_manifest": open(os.path.join(src, "notes.txt")).read().strip(),
        "confirmed": {
            "cmd": f"tools/verify_seeded.sh <scratch worktree> {name}",
            "demo_on_clean_tree": "exit 0 (PASS)", "demo_with_patch": "exit 1 (FAIL)",
            "test_suite_with_patch": "41 passed"}}
meta.update(json.loads(extra))
json.dump(meta, open(os.path.join(dst, "meta.json"), "w"), indent=1)
print("imported", sid)
