#!/bin/sh
# Nothing to download or compile: the framework is pure Python run by /venv/bin/python
# against /repo's working tree (pymbolic is installed editable there).  This only
# verifies that the things the checks need are present.
set -e
cd "$(dirname "$0")"
/venv/bin/python -c "import pymbolic, numpy, immutabledict, pytools; print('pymbolic from', pymbolic.__file__)"
gcc --version | head -1
g++ --version | head -1 || echo "g++ missing: C14 programs with complex constants are not compiled"
mkdir -p evidence replays build
echo setup ok
